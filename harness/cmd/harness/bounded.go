// Suite `bounded` (C09, runtime part): one program per CHILD PROCESS (re-exec of this binary,
// GOMEMLIMIT=256MiB, an address-space ulimit, a hard kill timeout), evaluated through
// repl.EvalStringWithOption with opts.MaxDepth and opts.MaxDuration set.
//
//	input  <family>;<n>;<maxdepth, 0 = default>;<deadline in ms, 0 = none>[;<need>]
//	obs    exit=<ok|killed|fatal:<kind>>;res=<ok|err|deadline|depth|mem|go|parse|->;wall=<ms>;rss=<KiB>;cpu=<ms>;retried=<0|1>
//
// res: ok = no error; deadline = an error mentioning the context deadline; depth = the recovered
// "max depth" panic; mem = the recovered "would exceed memory" panic; go = any other recovered Go
// panic; err = another language-level error; parse = parser errors.
// wall is the time spent inside EvalStringWithOption (lexing, parsing, printing and evaluating),
// rss the peak resident set size (VmHWM) of the child when it is done.  These are MEASUREMENTS:
// the driver only checks them against named thresholds (lean/Grol/BoundedSuite.lean).
//
// The children run up to boundedWorkers at a time; a run that was killed, died or overran the
// deadline by more than boundedRetryOverMs is repeated once alone (the machine may be busy) and
// the second measurement is reported with retried=1.
package main

import (
	"bytes"
	"context"
	"fmt"
	"os"
	"os/exec"
	"strconv"
	"strings"
	"sync"
	"syscall"
	"time"

	"fortio.org/log"
	"grol.io/grol/extensions"
	"grol.io/grol/repl"
)

func init() {
	suites["bounded"] = suite{gen: boundedGen, run: boundedRun}
	subcommands["child-bounded"] = boundedChild
}

const (
	boundedMemLimit    = 256 << 20
	boundedUlimitKB    = 6 << 20 // address space, KiB (the Go runtime reserves far more than it uses)
	boundedKillAfter   = 25 * time.Second
	// kill timeout (after the deadline) for the families that need milliseconds, and how many killed runs
	// are repeated alone at most (a hang repeats exactly; many hangs must not stall the check)
	boundedKillAfterQuick = 8 * time.Second
	boundedMaxKilledRetry = 2
	boundedWorkers     = 8
	boundedRetryOverMs = 1000
)

// boundedProgram builds the program of one family.  n is the family's size parameter.
func boundedProgram(fam string, n int64) string {
	rep := func(s string) string { return strings.Repeat(s, int(n)) }
	if p, ok := boundedExtProgram(fam, n); ok { // library functions, builtins, macros: bounded_ext.go
		return p
	}
	switch fam {
	// --- non-terminating loops
	case "loop-empty":
		return "for true {}"
	case "loop-incr":
		return "x=0\nfor true {x=x+1}"
	case "loop-nested":
		return "x=0\nfor true {for true {for i=0:1000 {x=x+i}}}"
	case "loop-print":
		return "x=0\nfor true {x++\nprintln(x)}"
	case "loop-counted": // Go-level counted loop with a huge count
		return "for 1<<62 {}"
	case "loop-call":
		return "func g(x){x+1}\nx=0\nfor true {x=g(x)}"
	// --- unbounded recursion
	case "rec-self":
		return "f=func(){f()}\nf()"
	case "rec-arg":
		return "func f(n){f(n+1)}\nf(0)"
	case "rec-mutual":
		return "func a(){b()}\nfunc b(){a()}\na()"
	case "rec-closure":
		return "f=func(n){g=func(){f(n+1)}\ng()}\nf(0)"
	case "rec-selfkw":
		return "func(n){self(n+1)}(0)"
	case "rec-nontail":
		return "func f(n){1+f(n+1)}\nf(0)"
	// --- recursion of depth n that terminates
	case "rec-depth":
		return depthProgram(n)
	// --- n nested closures, each capturing the outer parameters
	case "closures":
		var sb strings.Builder
		for i := int64(0); i < n; i++ {
			fmt.Fprintf(&sb, "func(a%d){", i)
		}
		sb.WriteString("a0")
		for i := int64(1); i < n; i++ {
			fmt.Fprintf(&sb, "+a%d", i)
		}
		sb.WriteString(rep("}"))
		for i := int64(0); i < n; i++ {
			fmt.Fprintf(&sb, "(%d)", i+1)
		}
		return sb.String()
	// --- huge operands
	case "huge-str":
		return "n=" + intLit(n) + "\nx=\"ab\"*n\nlen(x)"
	case "huge-arr":
		return "n=" + intLit(n) + "\nx=[1]*n\nlen(x)"
	case "huge-rng":
		return "n=" + intLit(n) + "\nx=0:n\nlen(x)"
	case "huge-cat":
		return "n=" + intLit(n) + "\na=[1]*n\nx=a+a\nlen(x)"
	case "huge-strcat": // a string of 2n bytes doubled 4 times by concatenation (32n bytes)
		return "n=" + intLit(n) + "\ns=\"ab\"*n\nx=s+s\ny=x+x\nz=y+y\nw=z+z\nlen(w)"
	// --- huge count x degenerate (empty) operand: nothing to allocate, so only the loop bound protects
	case "degen-arr-lit":
		return "n=" + intLit(n) + "\nx=[]*n\nlen(x)"
	case "degen-arr-slice":
		return "n=" + intLit(n) + "\ny=[1,2,3]\ne=y[3:3]\nx=e*n\nlen(x)"
	case "degen-arr-rng":
		return "n=" + intLit(n) + "\nx=(0:0)*n\nlen(x)"
	case "degen-arr-rng5":
		return "n=" + intLit(n) + "\nk=5\nx=(k:k)*n\nlen(x)"
	case "degen-str":
		return "n=" + intLit(n) + "\nx=\"\"*n\nlen(x)"
	case "degen-str-slice":
		return "n=" + intLit(n) + "\ny=\"abc\"\ne=y[3:3]\nx=e*n\nlen(x)"
	case "degen-map-loop": // a counted loop of n iterations merging empty maps: polled, ends by the deadline
		return "n=" + intLit(n) + "\nm={}\nfor n {m=m+{}}\nlen(m)"
	case "degen-cat-loop":
		return "n=" + intLit(n) + "\na=[]\nfor n {a=a+[]}\nlen(a)"
	// --- counts whose product with the operand's length wraps around 2^64 (or 2^63)
	case "wrap-arr":
		return "n=" + intLit(n) + "\nx=[1,2,3,4]*n\nlen(x)"
	case "wrap-arr2":
		return "n=" + intLit(n) + "\nx=[1,2]*n\nlen(x)"
	case "wrap-str":
		return "n=" + intLit(n) + "\nx=\"abcd\"*n\nlen(x)"
	// --- growth in a loop
	case "grow-arr":
		return "a=[1,2]\nfor true {a=a+a}"
	case "grow-str":
		return "s=\"ab\"\nfor true {s=s+s}"
	case "grow-strmul":
		return "s=\"ab\"\nfor true {s=s*2}"
	case "grow-map":
		return "m={}\ni=0\nfor true {m=m+{i:i,-i-1:i}\ni=i+1}"
	case "grow-append":
		return "a=[]\nfor true {a=a+1}"
	case "grow-nest":
		return "a=[1]\nfor true {a=[a,a]}"
	// --- values with shared structure: n doublings give a DAG of n nodes that unfolds to 2^n leaves
	case "dag-eq":
		return "a=[1]\nfor " + intLit(n) + " {a=[a,a]}\nb=(a==a)\nb"
	case "dag-print":
		return "a=[1]\nfor " + intLit(n) + " {a=[a,a]}\nprintln(a)\n1"
	// --- deeply nested source text
	case "nest-paren":
		return rep("(") + "1" + rep(")")
	case "nest-bracket":
		return rep("[") + "1" + rep("]")
	case "nest-minus":
		return rep("- ") + "1"
	case "nest-bang":
		return rep("!") + "true"
	case "nest-block":
		return rep("if true {") + "1" + rep("}")
	case "nest-call":
		return "f=func(x){x}\n" + rep("f(") + "1" + rep(")")
	case "nest-lambda":
		return rep("func(){") + "1" + rep("}")
	case "nest-plus": // left-deep operator chain: the tree is n deep although the text is flat
		return "1" + rep("+1")
	// --- waiting
	case "sleep":
		return "sleep(" + strconv.FormatInt(n, 10) + ".0)"
	}
	panic("bounded: unknown family " + fam)
}

func peakRSSKB() int64 {
	data, err := os.ReadFile("/proc/self/status")
	if err != nil {
		return -1
	}
	for _, l := range strings.Split(string(data), "\n") {
		if strings.HasPrefix(l, "VmHWM:") {
			f := strings.Fields(l)
			if len(f) >= 2 {
				v, _ := strconv.ParseInt(f[1], 10, 64)
				return v
			}
		}
	}
	return -1
}

// processCPU: user + system time of this process so far.  On a busy machine the wall-clock time of a run says how
// long it WAITED as well; the CPU time says how long it computed.  The driver takes the smaller of the two for
// every family that computes (not for `sleep`, which waits by design).
func processCPU() time.Duration {
	var ru syscall.Rusage
	if err := syscall.Getrusage(syscall.RUSAGE_SELF, &ru); err != nil {
		return -1
	}
	return time.Duration(ru.Utime.Nano() + ru.Stime.Nano())
}

func classifyErrs(errs []string) string {
	res := "ok"
	for _, e := range errs {
		switch {
		case strings.HasPrefix(e, "panic: max depth"):
			return "depth"
		case strings.HasPrefix(e, "panic: would exceed memory"):
			return "mem"
		case strings.HasPrefix(e, "panic:"):
			return "go"
		case strings.Contains(e, "deadline exceeded") || strings.Contains(e, "context canceled"):
			res = "deadline"
		default:
			if res == "ok" {
				res = "err"
			}
		}
	}
	return res
}

// boundedChild: child-bounded <family> <n> <maxdepth> <deadline ms>
func boundedChild(args []string) int {
	if len(args) < 4 {
		return 2
	}
	n, _ := strconv.ParseInt(args[1], 10, 64)
	d, _ := strconv.Atoi(args[2])
	t, _ := strconv.Atoi(args[3])
	log.SetLogLevelQuiet(log.Critical)
	_ = extensions.Init(nil)
	// ctx-<family>: the deadline comes with the CALLER's context (a bot's per-request deadline, ^C in the REPL) and no
	// MaxDuration is configured; the evaluation has to honour that context just the same
	fam, viaCtx := strings.CutPrefix(args[0], "ctx-")
	prog := boundedProgram(fam, n)
	opts := repl.EvalStringOptions()
	opts.MaxDepth = d
	opts.MaxDuration = time.Duration(t) * time.Millisecond
	ctx := context.Background()
	if viaCtx && t > 0 {
		opts.MaxDuration = 0
		var cancel context.CancelFunc
		ctx, cancel = context.WithTimeout(ctx, time.Duration(t)*time.Millisecond)
		defer cancel()
	}
	cpu0 := processCPU()
	start := time.Now()
	_, errs, formatted := repl.EvalStringWithOption(ctx, opts, prog)
	wall := time.Since(start)
	cpu := processCPU() - cpu0
	res := classifyErrs(errs)
	if res == "err" && formatted == prog && len(errs) > 0 && !strings.Contains(errs[0], "<err:") && strings.Contains(strings.Join(errs, " "), "parse") {
		res = "parse"
	}
	fmt.Printf("res=%s;wall=%d;rss=%d;cpu=%d\n", res, wall.Milliseconds(), peakRSSKB(), cpu.Milliseconds())
	return 0
}

// families that finish in milliseconds when the code is right: a run that has to be killed there is a hang, and
// waiting longer (or repeating many of them) only delays the report
func boundedQuickFamily(fam string) bool {
	fam = strings.TrimPrefix(fam, "ctx-")
	return strings.HasPrefix(fam, "degen-") || strings.HasPrefix(fam, "wrap-") || strings.HasPrefix(fam, "huge-") ||
		strings.HasPrefix(fam, "loop-") || fam == "sleep" || boundedExtQuick(fam)
}

func boundedKillAfterFor(fam string) time.Duration {
	if boundedQuickFamily(fam) {
		return boundedKillAfterQuick
	}
	return boundedKillAfter
}

// runBoundedChild returns the observation without the retried flag, and whether a retry is warranted.
func runBoundedChild(fam string, n int64, d, t int) (string, bool) {
	ctx, cancel := context.WithTimeout(context.Background(), boundedKillAfterFor(fam)+time.Duration(t)*time.Millisecond)
	defer cancel()
	cmd := exec.CommandContext(ctx, "/bin/sh", "-c", fmt.Sprintf("ulimit -v %d; exec \"$0\" \"$@\"", boundedUlimitKB),
		selfExe(), "child-bounded", fam, strconv.FormatInt(n, 10), strconv.Itoa(d), strconv.Itoa(t))
	cmd.Env = append(os.Environ(), fmt.Sprintf("GOMEMLIMIT=%d", boundedMemLimit), "GOTRACEBACK=none")
	var out, errb bytes.Buffer
	cmd.Stdout = &out
	cmd.Stderr = &errb
	start := time.Now()
	err := cmd.Run()
	total := time.Since(start)
	if err != nil {
		if ctx.Err() != nil {
			return fmt.Sprintf("exit=killed;res=-;wall=%d;rss=-1", total.Milliseconds()), true
		}
		kind := "other"
		e := errb.String()
		switch {
		case strings.Contains(e, "stack overflow") || strings.Contains(e, "stack exceeds"):
			kind = "stackoverflow"
		case strings.Contains(e, "out of memory") || strings.Contains(e, "cannot allocate"):
			kind = "oom"
		}
		return fmt.Sprintf("exit=fatal:%s;res=-;wall=%d;rss=-1", kind, total.Milliseconds()), true
	}
	line := strings.TrimSpace(out.String())
	if i := strings.LastIndexByte(line, '\n'); i >= 0 {
		line = line[i+1:]
	}
	if !strings.HasPrefix(line, "res=") {
		return "exit=fatal:nooutput;res=-;wall=0;rss=-1", true
	}
	retry := false
	if t > 0 {
		w, c := 0, -1
		for _, f := range strings.Split(line, ";") {
			if strings.HasPrefix(f, "wall=") {
				w, _ = strconv.Atoi(f[5:])
			}
			if strings.HasPrefix(f, "cpu=") {
				c, _ = strconv.Atoi(f[4:])
			}
		}
		if c >= 0 && c < w && strings.TrimPrefix(fam, "ctx-") != "sleep" {
			w = c
		}
		retry = w-t > boundedRetryOverMs
	}
	return "exit=ok;" + line, retry
}

type boundedCase struct {
	fam  string
	n    int64
	d, t int
}

func parseBounded(input string) (boundedCase, bool) {
	p := strings.Split(input, ";")
	if len(p) < 4 {
		return boundedCase{}, false
	}
	n, e1 := strconv.ParseInt(p[1], 10, 64)
	d, e2 := strconv.Atoi(p[2])
	t, e3 := strconv.Atoi(p[3])
	return boundedCase{p[0], n, d, t}, e1 == nil && e2 == nil && e3 == nil
}

var (
	boundedMu      sync.Mutex
	boundedResults = map[string]string{}
)

func boundedRun(input string) string {
	boundedMu.Lock()
	r, ok := boundedResults[input]
	boundedMu.Unlock()
	if ok {
		return r
	}
	c, ok := parseBounded(input)
	if !ok {
		return "BAD"
	}
	// replay / witness mode: this run is already alone, a second measurement would tell nothing new
	obs, _ := runBoundedChild(c.fam, c.n, c.d, c.t)
	return obs + ";retried=0"
}

// needed MaxDepth of depthProgram(n), measured in process for small n; linear in n (checked by the
// suite itself: the measured points are cases)
func boundedNeed(n int64) int { return depthNeeded(n) }

func boundedGen(tier string, r *rng, emit func(string)) {
	thorough := tier == "thorough"
	depths := []int{10, 100, 1000, 10000, 0}
	deadlines := []int{1, 10, 100, 1000}
	var inputs []string
	add := func(fam string, n int64, d, t int, extra ...string) {
		s := fmt.Sprintf("%s;%d;%d;%d", fam, n, d, t)
		for _, e := range extra {
			s += ";" + e
		}
		inputs = append(inputs, s)
	}
	pickD := func() int { return depths[r.intn(len(depths))] }
	pickT := func() int { return deadlines[r.intn(len(deadlines))] }
	reps := 1
	if thorough {
		reps = 8
	}
	loops := []string{"loop-empty", "loop-incr", "loop-nested", "loop-print", "loop-counted", "loop-call"}
	recs := []string{"rec-self", "rec-arg", "rec-mutual", "rec-closure", "rec-selfkw", "rec-nontail"}
	grows := []string{"grow-arr", "grow-str", "grow-strmul", "grow-map", "grow-append", "grow-nest"}
	nests := []string{"nest-paren", "nest-bracket", "nest-minus", "nest-bang", "nest-block", "nest-call", "nest-lambda", "nest-plus"}
	for i := 0; i < reps; i++ {
		// non-terminating loops: every family, random depth and deadline; every deadline at least once
		for j, f := range loops {
			add(f, 0, pickD(), deadlines[(j+i)%len(deadlines)])
			if thorough {
				add(f, 0, pickD(), pickT())
			}
		}
		// unbounded recursion: with a deadline (either guard may fire first) and without (the depth guard must)
		for j, f := range recs {
			add(f, 0, depths[(j+i)%len(depths)], pickT())
			add(f, 0, depths[(j+i+2)%4], 0) // no deadline: MaxDepth 10..10000
			if thorough {
				add(f, 0, pickD(), pickT())
			}
		}
		// the default depth without a deadline (about 150k nested evaluations: the stack the limit is meant to allow)
		if i == 0 {
			add(recs[r.intn(len(recs))], 0, 0, 0)
		}
		// terminating recursion just below and just above the limit (need measured in process)
		for _, d := range []int{10, 100, 1000, 10000} {
			lo, hi := int64(0), int64(4000)
			for lo < hi { // largest n whose need fits d
				mid := (lo + hi + 1) / 2
				if boundedNeed(mid) <= d {
					lo = mid
				} else {
					hi = mid - 1
				}
			}
			nb := lo - int64(r.intn(3))
			if nb < 0 {
				nb = 0
			}
			add("rec-depth", nb, d, 0, strconv.Itoa(boundedNeed(nb)))
			na := lo + 1 + int64(r.intn(3))
			add("rec-depth", na, d, 0, strconv.Itoa(boundedNeed(na)))
		}
		if i == 0 { // default depth: need extrapolated linearly from two measured points
			n0, n1 := int64(100), int64(200)
			slope := (boundedNeed(n1) - boundedNeed(n0)) / int(n1-n0)
			base := boundedNeed(n0) - slope*int(n0)
			nb := int64((150000-base)/slope) - 1 - int64(r.intn(50))
			add("rec-depth", nb, 0, 0, strconv.Itoa(base+slope*int(nb)))
			na := int64((150000-base)/slope) + 2 + int64(r.intn(50))
			add("rec-depth", na, 0, 0, strconv.Itoa(base+slope*int(na)))
		}
		// nested closures
		add("closures", int64(2+r.intn(40)), pickD(), 1000)
		add("closures", int64(2+r.intn(3)), 100, pickT())
		// huge operands, far from the budget on either side
		add("huge-strcat", int64(1)<<25, pickD(), 1000) // 64 MiB string doubled 4 times: 1 GiB does not fit
		add("huge-strcat", int64(1)<<25, pickD(), 0)    // without a deadline the guard alone must refuse it
		add("huge-strcat", int64(100+r.intn(1000)), pickD(), 1000)
		for _, f := range []string{"huge-str", "huge-arr", "huge-rng", "huge-cat"} {
			add(f, int64(1)<<uint(30+r.intn(33)), pickD(), 1000)
			add(f, int64(100+r.intn(100000)), pickD(), 1000)
			if thorough {
				add(f, int64(r.next()>>uint(1+r.intn(40))), pickD(), 1000)
			}
		}
		add("huge-arr", int64(1)<<62, 0, 1000)
		add("huge-str", int64(1)<<62, 0, 1000)
		// huge count x empty operand (only the loop bound protects), and counts whose product wraps
		hugeCounts := []int64{1 << 40, 1 << 62, 4611686018427387905, 9223372036854775807}
		for j, f := range []string{"degen-arr-lit", "degen-arr-slice", "degen-arr-rng", "degen-arr-rng5", "degen-str", "degen-str-slice",
			"degen-map-loop", "degen-cat-loop"} {
			for k, n := range hugeCounts {
				if thorough || i > 0 || (j+k)%2 == 0 || f == "degen-arr-lit" || f == "degen-arr-slice" {
					add(f, n, pickD(), []int{100, 1000}[(i+j+k)%2])
				}
			}
		}
		for j, f := range []string{"wrap-arr", "wrap-arr2", "wrap-str"} {
			for k, n := range []int64{1 << 62, 4611686018427387905, 9223372036854775807, 1<<62 + 1<<61, 2305843009213693953} {
				if thorough || (j+k)%2 == 0 {
					add(f, n, pickD(), 1000)
				}
			}
		}
		// growth in a loop
		for j, f := range grows {
			add(f, 0, pickD(), []int{1000, 100}[(i+j)%2])
		}
		// deeply nested source text
		// (block nesting beyond a few thousand levels and anything beyond 2*10^5 levels fall in the two recorded
		// findings and cost 10-60 s per run: their witnesses are replayed by bin/check; thorough adds a few)
		for _, f := range nests {
			blocks := f == "nest-block" || f == "nest-lambda"
			if blocks {
				add(f, int64(1000+r.intn(2000)), pickD(), 1000)
				add(f, int64(3000+r.intn(1000)), 0, 1000)
			} else {
				add(f, 10000, pickD(), 1000)
				add(f, int64(20000+r.intn(20000)), 0, 1000)
			}
			if thorough && i < 2 && !blocks {
				add(f, 1000000, 0, 1000)
				add(f, 30000+int64(r.intn(100000)), pickD(), pickT())
			}
		}
		// shared structure, small enough to be traversed in time (larger ones are the recorded finding)
		add("dag-eq", int64(8+r.intn(8)), pickD(), 1000)
		add("dag-print", int64(8+r.intn(8)), pickD(), 1000)
		// waiting
		add("sleep", 10, pickD(), 100)
		add("sleep", 10, 0, deadlines[i%len(deadlines)])
		// the same with the deadline carried by the caller's context and no MaxDuration
		add("ctx-sleep", 10, 0, deadlines[i%len(deadlines)])
		add("ctx-loop-empty", 0, pickD(), deadlines[(i+1)%len(deadlines)])
		add("ctx-loop-incr", 0, 0, deadlines[(i+2)%len(deadlines)])
		boundedExtGen(r, thorough, add) // library functions, builtins, macros: bounded_ext.go
	}
	// run: up to boundedWorkers children at a time
	type job struct {
		in string
		c  boundedCase
	}
	jobs := make(chan job)
	var wg sync.WaitGroup
	var retryMu sync.Mutex
	var retries []job
	killedRetries := 0
	seen := map[string]bool{}
	for w := 0; w < boundedWorkers; w++ {
		wg.Add(1)
		go func() {
			defer wg.Done()
			for j := range jobs {
				obs, retry := runBoundedChild(j.c.fam, j.c.n, j.c.d, j.c.t)
				if retry {
					retryMu.Lock()
					killed := strings.HasPrefix(obs, "exit=killed")
					if !killed || killedRetries < boundedMaxKilledRetry {
						if killed {
							killedRetries++
						}
						retries = append(retries, j)
						retryMu.Unlock()
						continue
					}
					retryMu.Unlock() // enough killed runs are being repeated: report this one as measured
				}
				boundedMu.Lock()
				boundedResults[j.in] = obs + ";retried=0"
				boundedMu.Unlock()
			}
		}()
	}
	for _, in := range inputs {
		if seen[in] {
			continue
		}
		seen[in] = true
		if c, ok := parseBounded(in); ok {
			jobs <- job{in, c}
		}
	}
	close(jobs)
	wg.Wait()
	for _, j := range retries { // alone
		obs, _ := runBoundedChild(j.c.fam, j.c.n, j.c.d, j.c.t)
		boundedResults[j.in] = obs + ";retried=1"
	}
	for _, in := range inputs {
		emit(in)
	}
}

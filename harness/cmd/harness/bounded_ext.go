// Families of the `bounded` suite (C09) that reach the guards through LIBRARY functions and
// builtins instead of operators: C09 quantifies over "any program", and a program can also grow
// strings, arrays and host-side objects (images), recurse and nest source text through
// extensions (split, runes, join, sprintf, regsub, str, json, base64, eval, unjson, image.new),
// through `catch`, through macros, and through its own output (EvalStringWithOption buffers it).
//
// Same case syntax and observation as bounded.go; boundedProgram consults boundedExtProgram first.
package main

import (
	"strings"
)

func boundedExtProgram(fam string, n int64) (string, bool) {
	N := intLit(n)
	switch fam {
	// --- host-side objects kept alive by an extension (not grol values: invisible to the operators' guard)
	case "ext-image-loop": // 4 MB of pixels per iteration, every image stays in the extension's table
		return "i=0\nfor true {image.new(sprintf(\"i%d\",i),1000,1000)\ni++}", true
	case "ext-image-big":
		return "image.new(\"a\"," + N + "," + N + ")\n1", true
	// --- output: EvalStringWithOption collects everything printed in a buffer
	case "ext-print-big":
		return "s=\"x\"*1000000\nfor true {println(s)}", true
	case "ext-log-big":
		return "s=\"x\"*1000000\nfor true {log(s)}", true
	// --- strings grown by library functions
	case "ext-sprintf-double":
		return "s=\"ab\"\nfor true {s=sprintf(\"%s%s\",s,s)}", true
	case "ext-join-double":
		return "s=\"ab\"\nfor true {s=join([s,s],\"\")}", true
	case "ext-str-double":
		return "a=[1]\nfor true {a=[str(a),str(a)]}", true
	case "ext-width": // a format width far beyond the budget
		return "x=sprintf(\"%" + N + "d\",1)\nlen(x)", true
	// --- one call on an operand near the budget whose result is a multiple of it
	case "ext-split-chars": // n bytes -> n strings (16 bytes each) -> n objects (16 bytes each)
		return "s=\"x\"*" + N + "\na=split(s,\"\")\nlen(a)", true
	case "ext-split-sep":
		return "s=\"a,\"*" + N + "\na=split(s,\",\")\nlen(a)", true
	case "ext-runes":
		return "s=\"x\"*" + N + "\na=runes(s)\nlen(a)", true
	case "ext-regsub": // every second byte replaced by 56 bytes
		return "s=\"ab\"*" + N + "\nr=regsub(\"a\",s,\"" + strings.Repeat("x", 56) + "\")\nlen(r)", true
	case "ext-str-big":
		return "a=[1]*" + N + "\ns=str(a)\nlen(s)", true
	case "ext-json-big":
		return "a=[1]*" + N + "\ns=json(a)\nlen(s)", true
	case "ext-base64":
		return "s=\"ab\"*" + N + "\nt=base64(s)\nlen(t)", true
	// --- recursion and nesting through eval / unjson (a fresh lexer, parser and evaluation per call)
	case "ext-eval-rec":
		return "func f(){eval(\"f()\")}\nf()", true
	case "ext-eval-rec-arg":
		return "func f(n){eval(sprintf(\"f(%d)\",n+1))}\nf(0)", true
	case "ext-eval-loop":
		return "x=0\nfor true {x=eval(\"x+1\")}", true
	case "ext-unjson-nest": // the nested text is COMPUTED: a 20-byte program
		return "unjson(\"[\"*" + N + ")", true
	case "ext-eval-nest":
		return "eval(\"(\"*" + N + "+\"1\"+\")\"*" + N + ")", true
	// --- errors caught and the loop going on
	case "ext-catch-loop":
		return "for true {catch(error(\"x\"))}", true
	case "ext-catch-rec": // the depth failure is not an error value: catch must not swallow it
		return "func f(){f()}\nr=catch(f())\nfor true {}", true
	case "ext-catch-deadline": // neither is the deadline: a loop of caught evaluations still ends
		return "func g(){for true {}}\nfor true {catch(g())}", true
	// --- macros: n nested uses of a macro that doubles its argument expand to 2^n nodes
	case "macro-double":
		var sb strings.Builder
		sb.WriteString("m=macro(x){quote(unquote(x)+unquote(x))}\n")
		sb.WriteString(strings.Repeat("m(", int(n)) + "1" + strings.Repeat(")", int(n)))
		return sb.String(), true
	case "macro-rec": // a macro whose expansion uses itself
		return "m=macro(x){quote(m(unquote(x)))}\nm(1)", true
	}
	return "", false
}

// which of these families need only milliseconds when the code is right (short kill timeout)
func boundedExtQuick(fam string) bool {
	return strings.HasPrefix(fam, "ext-") || strings.HasPrefix(fam, "macro-")
}

func boundedExtGen(r *rng, thorough bool, add func(fam string, n int64, d, t int, extra ...string)) {
	depths := []int{10, 100, 1000, 10000, 0}
	pickD := func() int { return depths[r.intn(len(depths))] }
	// loops around builtins and library calls: ended by the deadline, memory bounded by what one second can print
	for j, f := range []string{"ext-print-big", "ext-log-big", "ext-eval-loop", "ext-catch-loop", "ext-catch-deadline"} {
		add(f, 0, pickD(), []int{1000, 100, 10}[(j+r.intn(3))%3])
	}
	// recursion through eval(): the deadline (100 ms: unwinding must not cost more than getting there) or the depth guard
	for _, f := range []string{"ext-eval-rec", "ext-eval-rec-arg"} {
		add(f, 0, 0, 100)
		add(f, 0, []int{10, 100, 1000, 10000}[r.intn(4)], 0)
		add(f, 0, []int{100, 1000}[r.intn(2)], []int{10, 1000}[r.intn(2)])
	}
	add("ext-catch-rec", 0, []int{10, 100, 1000, 10000}[r.intn(4)], 0)
	add("ext-catch-rec", 0, 1000, 1000)
	// growth through library functions and host-side objects
	for _, f := range []string{"ext-image-loop", "ext-sprintf-double", "ext-join-double", "ext-str-double"} {
		add(f, 0, pickD(), 1000)
	}
	add("ext-image-loop", 0, 0, 0) // without a deadline only the budget can stop it
	for _, n := range []int64{1024, 1025, 1 << 31, 1 << 62} {
		add("ext-image-big", n, pickD(), 1000)
	}
	add("ext-width", []int64{2000000000, 1 << 40, 999999}[r.intn(3)], pickD(), 1000)
	// one call, operand near the budget, result a multiple of it; and a small one that must simply work
	big := map[string]int64{"ext-split-chars": 100000000, "ext-split-sep": 50000000, "ext-runes": 50000000,
		"ext-str-big": 10000000, "ext-json-big": 10000000, "ext-base64": 50000000}
	for _, f := range []string{"ext-split-chars", "ext-split-sep", "ext-runes", "ext-str-big", "ext-json-big", "ext-base64"} {
		add(f, big[f]-int64(r.intn(1000)), pickD(), 1000)
		add(f, int64(100+r.intn(100000)), pickD(), 1000)
	}
	// regsub: sizes that fit (larger ones are the recorded finding, its witness is replayed by bin/check)
	add("ext-regsub", int64(100+r.intn(100000)), pickD(), 1000)
	add("ext-regsub", int64(1000000+r.intn(500000)), pickD(), 1000)
	// nested text computed at run time: balanced (eval) and unclosed (unjson: one parse error per level)
	add("ext-eval-nest", int64(10000+r.intn(20000)), pickD(), 1000)
	add("ext-unjson-nest", int64(10000+r.intn(10000)), pickD(), 1000)
	add("ext-unjson-nest", int64(100+r.intn(1000)), pickD(), []int{1, 10, 100}[r.intn(3)])
	// macros
	add("macro-double", int64(2+r.intn(10)), pickD(), 1000)
	add("macro-double", int64(24+r.intn(8)), pickD(), []int{100, 1000}[r.intn(2)])
	add("macro-rec", 0, pickD(), 1000)
}

// Histories for the `autosave` suite (C18 quantifies over crash points, fault sequences AND histories):
// the save that is interrupted is not the first thing the process does.
//
//	program field  <hex prog1>+<hex prog2>   one process: prog1, AutoSave (undisturbed), prog2, AutoSave (crash / failure here)
//	               L+<hex prog>              one process: AutoLoad of the old file, prog, AutoSave (what a session does)
//
// The rest of the case line is as in autosave.go; the fault is given RELATIVE TO THE LAST SAVE (the protocol model
// is about one save): the harness translates it to the process-wide hit count of the crash hooks (the first save of
// a `+` history passes every point once and the binding point once per line of the old file).
package main

import (
	"fmt"
	"strconv"
	"strings"

	"fortio.org/log"
	"grol.io/grol/eval"
	"grol.io/grol/extensions"
	"grol.io/grol/repl"
)

func init() { subcommands["child-autosave-hist"] = autosaveHistChild }

// child-autosave-hist <S|L> <hex prog1> <hex prog2>
func autosaveHistChild(args []string) int {
	log.SetLogLevelQuiet(log.Critical)
	if err := extensions.Init(nil); err != nil {
		return 3
	}
	s := eval.NewState()
	run := func(h string) bool {
		if prog := unhx(h); prog != "" {
			if _, err := eval.EvalString(s, prog, false); err != nil {
				fmt.Println("evalerr")
				return false
			}
		}
		return true
	}
	if args[0] == "L" {
		_ = repl.AutoLoad(s, repl.Options{AutoLoad: true})
	} else {
		if !run(args[1]) {
			return 4
		}
		if err := repl.AutoSave(s, repl.Options{AutoSave: true}); err != nil {
			fmt.Println("err1")
			return 0
		}
	}
	if !run(args[2]) {
		return 4
	}
	if err := repl.AutoSave(s, repl.Options{AutoSave: true}); err != nil {
		fmt.Println("err")
		return 0
	}
	fmt.Println("ok")
	return 0
}

// autosaveHistArgs: child arguments and crash / failure environment for a history case; ok=false for a plain case.
// oldLines = number of lines of the old file (= of the first save of a `+` history).
func autosaveHistArgs(prog, fault string, oldLines int) (args, env []string, ok bool) {
	i := strings.IndexByte(prog, '+')
	if i < 0 {
		return nil, nil, false
	}
	first := 0 // hits of every point consumed by the first save
	if prog[:i] == "L" {
		args = []string{"child-autosave-hist", "L", "-", prog[i+1:]}
	} else {
		args = []string{"child-autosave-hist", "S", prog[:i], prog[i+1:]}
		if prog[:i] != "-" { // an empty first program sets nothing: its AutoSave is skipped and passes no crash point
			first = 1
		}
	}
	f := strings.Split(fault, ":")
	switch f[0] {
	case "crash": // crash:<point>:<n relative to the last save>
		n, _ := strconv.Atoi(f[2])
		if f[1] == "binding" {
			n += first * oldLines
		} else {
			n += first
		}
		env = []string{fmt.Sprintf("GROL_VERIF_CRASH=%s:%d", f[1], n)}
	case "fail": // the writer wrapper is per SaveGlobals call: n counts the writes of each save (the generator picks n > oldLines)
		env = []string{"GROL_VERIF_FAILWRITE=" + f[1] + ":" + f[2]}
	}
	return args, env, true
}

// reference run of a history (no fault): the old file is put in place first for L histories
func autosaveHistReference(kind, oldContent string, hasOld bool, prog1, prog2 string) (content string, saved bool) {
	in := "none"
	if hasOld {
		in = hx(oldContent)
	}
	p := hx(prog1) + "+" + hx(prog2)
	if kind == "L" {
		p = "L+" + hx(prog2)
	}
	obs := autosaveRun(in + ";" + p + ";1;e;none")
	for _, f := range strings.Split(obs, ";") {
		if strings.HasPrefix(f, "gr=") {
			if f == "gr=none" {
				return "", false
			}
			return unhx(f[3:]), true
		}
	}
	panic("autosave history reference: " + obs)
}

func autosaveHistGen(tier string, r *rng, emit func(string)) {
	thorough := tier == "thorough"
	sizes := [][2]int{{1, 3}, {5, 4}, {3, 0}}
	if thorough {
		sizes = append(sizes, [2]int{50, 20}, [2]int{20, 50}, [2]int{0, 5})
	}
	for _, sz := range sizes {
		prog1 := autosaveProgram(r, sz[0], "h")
		prog2 := autosaveProgram(r, sz[1], "k")
		if sz[1] > 0 && r.intn(2) == 0 { // the second part also changes and deletes what the first defined
			prog2 += "h000=\"changed\"\n"
			if sz[0] > 1 {
				prog2 += "del(h001)\n"
			}
		}
		old, hasOld := autosaveReference(prog1) // what the first save leaves
		for _, kind := range []string{"S", "L"} {
			content, _ := autosaveHistReference(kind, old, hasOld, prog1, prog2)
			changed := sz[1] > 0
			// the second program always adds bindings: a last save that leaves the old bytes has been skipped
			// ("nothing changed") although the state changed - the expected new content is not taken from such a run
			if changed && (content == old || !strings.Contains(content, "k000")) {
				panic("autosave history: the save after a changed state left the old file (kind " + kind + ")")
			}
			var lines []string
			if changed {
				lines = splitLines(content)
			}
			m := len(lines)
			lf := "e"
			if m > 0 {
				lf = hxList(lines)
			}
			oldF := "none"
			if hasOld {
				oldF = hx(old)
			}
			p := hx(prog1) + "+" + hx(prog2)
			if kind == "L" {
				p = "L+" + hx(prog2)
			}
			cs := func(fault string) { emit(oldF + ";" + p + ";" + b2s(changed) + ";" + lf + ";" + fault) }
			cs("none")
			if !changed {
				cs("crash:before-create:1")
				continue
			}
			for _, pt := range []string{"before-create", "after-create", "before-rename", "after-rename"} {
				cs("crash:" + pt + ":1")
			}
			oldLines := len(splitLines(old))
			for j := 1; j <= m; j++ {
				if m > 12 && j%5 != 0 && j != 1 && j != m {
					continue
				}
				cs(fmt.Sprintf("crash:binding:%d", j))
				// a write failure in the last save only (the first save of an S history must succeed: its writes are counted alike)
				if kind == "L" || j > oldLines {
					cs(fmt.Sprintf("fail:%d:%d", j, r.intn(len(lines[j-1])+1)))
				}
			}
		}
	}
}

package main

// C15 part 3, families added by the review of the property text against chunksGen.  The text names
// "macros defined before use" and a session whose "globals, macros, cache" persist between inputs; the
// generated scripts had no macros at all (3 hand-written ones) and never redefined anything.
//
//   chunkScripts2     hand-written scripts: comments as statements/chunks, several statements on one line,
//                     constants, del, function REDEFINITION between uses of a caller (memo cache), closures
//                     with state, catch, self recursion, variadics, for over arrays/maps, the shipped
//                     `unless` macro, a macro used inside a function defined in an earlier chunk, a macro
//                     whose template calls another macro
//   chunkRedefScripts the recorded finding `macro-redefined-after-use-in-one-input` (DefineMacros hoists ALL
//                     definitions of an input before any call is expanded): every split of three scripts
//   macro scripts     the sessions of the macro suite's generator (genMacroSession: 1..3 macros, 0..4 parameters,
//                     uses at top level / in functions / loops / other macros' arguments) joined into ONE
//                     script, every definition before its first use
import (
	"strings"
)

var chunkScripts2 = []string{
	"// header\na=1\n/* mid */\nb=a+1 // trailing\nprintln(a,b)\n// end",
	"a=1; b=2; println(a+b); a",
	"a=1 b=2 println(a,b) b",
	"PI2=6\nPI2=6\nprintln(PI2)\nPI2",
	"x=1\ndel(x)\nx=2\nprintln(x)\nx",
	"f=func(){1}\nprintln(f())\nf=func(){2}\nprintln(f())\nf()",
	"func f(){1}\ng=func(){f()+1}\nprintln(g())\nfunc f(){10}\nprintln(g())\ng()",
	"r=catch(1/0)\nprintln(r.err)\nr2=catch(2)\nprintln(r2)\nr2.value",
	"func fact(n){if n<=1 {return 1}\nn*self(n-1)}\nprintln(fact(5))\nfact(6)",
	"mk=func(n){()=>{n=n+1;n}}\nc=mk(5)\nprintln(c())\nprintln(c())\nc()",
	"a=[1,2,3]\nfor v = a {println(v)}\ns=0\nfor i=1:4 {s=s+i}\ns",
	"m={1:\"a\"}\nm[2]=\"b\"\nfor kv = m {println(kv.key, kv.value)}\nlen(m)",
	"x=\"a\"\nx=x+\"b\"\nprint(x)\nprint(x,\"\\n\")\nlen(x)",
	"if true {a=1} else {a=2}\nprintln(a)\na",
	"a=1\nif a==1 {println(\"one\")}\nfor a<3 {a++}\na",
	"f = x => x*2\ng = (x,y) => {x+y}\nprintln(f(2), g(1,2))\nf(g(1,1))",
	"func v(..) {len(..)}\nprintln(v(1,2,3))\nv()",
	"a=1.5\nb=a*2\nprintln(b)\nb==3.0",
	"unless = macro(cond, iffalse, iftrue) {\n quote(if (!(unquote(cond))) {\n unquote(iffalse)\n } else {\n unquote(iftrue)\n })\n}\nunless(5 > 11, println(\"lower\"), println(\"BUG\"))\nunless(10 > 5, println(\"BUG\"), println(\"greater\"))\nr = unless(1>2, 1, 2)\nr",
	"m = macro(x){quote(unquote(x)*2)}\nf = func(y){m(y)}\nprintln(f(2))\ng = func(y){m(y)+m(1)}\nprintln(g(3))\nf(g(1))",
	"m = macro(x){quote(unquote(x)*2)}\nm2 = macro(x){quote(m(unquote(x))+1)}\nprintln(m(1))\nm2(1)",
	"k = macro(a, b){quote(unquote(b) - unquote(a))}\nx = k(1, 10)\n// between\ny = k(x, k(2, 3))\nprintln(x, y)\nk(y, x)",
	"z = macro(){quote(println(\"expanded\"))}\nz()\nfor 2 {z()}\nfunc w(){z(); 3}\nw()",
}

var chunkRedefScripts = []string{
	"m = macro(x){quote(unquote(x)+1)}\na = m(1)\nm = macro(x){quote(unquote(x)+2)}\nb = m(1)\nprintln(a, b)",
	"m = macro(){quote(1)}\nprintln(m())\nm = macro(){quote(2)}\nprintln(m())",
	"m = macro(x){quote(unquote(x)*2)}\nf = func(y){m(y)}\nprintln(f(2))\nm = macro(x){quote(unquote(x)*3)}\nprintln(f(2))\ng = func(y){m(y)}\ng(2)",
}

func chunksGapFamilies(tier string, r *rng, emitScript func(string)) {
	for _, s := range chunkScripts2 {
		emitScript(s)
	}
	for _, s := range chunkRedefScripts {
		emitScript(s)
	}
	n := 40
	if tier == "thorough" {
		n = 400
	}
	for i := 0; i < n; i++ {
		parts := strings.Split(genMacroSession(r), ";")
		var inputs []string
		for _, h := range strings.Split(parts[1], "|") {
			inputs = append(inputs, unhx(h))
		}
		emitScript(strings.Join(inputs, "\n"))
	}
}

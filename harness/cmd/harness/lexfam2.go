package main

// C16, family added by the review of the property text against lexGen: "equal tokens are represented by
// one shared object" speaks about the process (token/token.go: one interning table), but every case of the
// lex suite runs ONE lexer and numbers pointer identities inside that case only — a table kept per lexer
// would go unnoticed.  Case `2;<hex>`: the same text through TWO lexers, file mode then line mode, pointer
// identities numbered by first appearance over both runs:
//
//	obs   <recs of the file-mode run>+<recs of the line-mode run>;<CurrentLine of the second lexer>
//
// Inputs: every shipped program, token-fragment soups, long repeated tokens, the escape bodies.

import (
	"fmt"
	"os"
	"strconv"
	"strings"

	"grol.io/grol/lexer"
	"grol.io/grol/token"
)

var lexChurnText []byte

func lexChurn() {
	if lexChurnText == nil {
		var b strings.Builder
		for i := 0; i < 10000; i++ {
			fmt.Fprintf(&b, "zq%d_ 9%d7 ", i, i)
		}
		lexChurnText = []byte(b.String())
	}
	l := lexer.NewBytes(lexChurnText)
	for {
		t := l.NextToken()
		if t == nil || t.Type() == token.EOF {
			return
		}
	}
}

func lexRunTwo(h string) string {
	src := unhx(h)
	ids := map[*token.Token]int{}
	var sb strings.Builder
	var last *lexer.Lexer
	for run, marker := range []token.Type{token.EOF, token.EOL} {
		var l *lexer.Lexer
		if run == 0 {
			l = lexer.NewBytes(exactBytes(src))
		} else {
			// "whatever was lexed before": between the two runs the process interns 20000 other tokens (the same ones in every
			// case: the table of the unchanged code grows once).  Seeded change C16-6 emptied the table when it held 16384
			// entries, so that tokens handed out earlier and equal tokens lexed later were different objects.
			lexChurn()
			l = lexer.NewLineMode(src)
			sb.WriteByte('+')
		}
		last = l
		seen := -1
		for i := 0; i < len(src)+5; i++ {
			pb := l.Pos()
			tok := l.NextToken()
			if i > 0 {
				sb.WriteByte(',')
			}
			id, ok := ids[tok]
			if !ok {
				id = len(ids)
				ids[tok] = id
			}
			typ, lit := "nil", "-"
			if tok != nil {
				typ = strconv.Itoa(int(tok.Type()))
				lit = hx(tok.Literal())
			}
			_, _, lno := l.CurrentLine()
			fmt.Fprintf(&sb, "%s:%s:%d:%d:%s:%s:%d:%d:%d", typ, lit, pb, l.Pos(), b2s(l.HadWhitespace()), b2s(l.HadNewline()), id, l.LastNewLine(), lno)
			if seen < 0 && tok != nil && tok.Type() == marker {
				seen = i
			}
			if seen >= 0 && i == seen+3 {
				break
			}
		}
	}
	line, col, lno := last.CurrentLine()
	fmt.Fprintf(&sb, ";%s:%d:%d", hx(line), col, lno)
	return sb.String()
}

func lexGapFamilies(tier string, r *rng, emit func(string)) {
	two := func(s string) { emit("2;" + hx(s)) }
	for _, s := range []string{"", "a", "a a", "abc 12 \"s\" // c\nabc 12 \"s\" // c", "if iff if", "x = 1.5 + 1.5", "\"a\" `a` a", "/* c */ /* c */", "a\x00a", "\"abc", "@ @ \xff \xff"} {
		two(s)
	}
	for _, b := range escapeBodies {
		two("\"" + b + "\" `" + b + "` \"" + b + "\"")
	}
	n := 300
	if tier == "thorough" {
		n = 5000
	}
	for i := 0; i < n; i++ {
		var sb strings.Builder
		for k := 2 + r.intn(14); k > 0; k-- {
			sb.WriteString(lexFragments[r.intn(len(lexFragments))])
			sb.WriteByte(" \n\t"[r.intn(3)])
		}
		two(sb.String())
	}
	for i := 0; i < 40; i++ {
		ln := []int{10, 63, 64, 65, 128, 256, 1000, 4097}[r.intn(8)]
		body := strings.Repeat(string("abcXYZ019_"[r.intn(10)]), ln)
		two("id" + body + " \"" + body + "\" /* " + body + " */ " + strings.Repeat("7", ln) + " // " + body)
	}
	for _, f := range allFiles(repoDir()) {
		if data, err := os.ReadFile(f); err == nil {
			two(string(data))
		}
	}
}

package main

// `parse` suite (C08, C15): the real lexer+parser+printer on one source text, in file mode and in
// line mode.  The observation carries the token stream produced by the REAL lexer (every
// NextToken() result up to the point where the lexer is past the end of its input, plus the end
// marker it repeats from then on); the Lean parser model consumes that stream.
//
// case input:   <hex source>            plain case
//               <hex source>@<k>        cut case (C15 part 2): the text parsed is source[:k]; the
//                                       observation also has the file-mode stream/result of the whole source
// observation:  key=value fields separated by '|'; keys of the file-mode run start with "F.", of the
//               line-mode run with "L.", of the whole-source run of a cut case with "W.":
//   X.toks  token stream      X.p  parser panicked (0/1)   X.e  number of errors   X.c  continuationNeeded
//   X.nn    tree has no missing children (0/1)
//   X.t     canonical dump of the tree     X.ts same without the layout flags of comments (only if different)
//   X.tnc   same without flags and without statement-level comments (only if different from X.ts)
//   X.pn X.pc X.pa X.pca   PrettyPrint in normal / compact / all-parens / compact+all-parens mode: hex, or PANIC

import (
	"fmt"
	"os"
	"path/filepath"
	"sort"
	"strconv"
	"strings"

	"grol.io/grol/ast"
	"grol.io/grol/lexer"
	"grol.io/grol/parser"
	"grol.io/grol/token"
)

func init() {
	suites["parse"] = suite{gen: parseGen, run: parseRun}
	suites["parse15"] = suite{gen: parse15Gen, run: parseRun}
}

// ---- token stream ----

type tokRec struct {
	typ    token.Type
	lit    string
	pb, pa int
	ws, nl bool
	lastNl int
	num    int
}

func numClass(t *token.Token) int {
	switch t.Type() {
	case token.INT:
		if _, err := strconv.ParseInt(t.Literal(), 0, 64); err == nil {
			return 1
		}
		if _, err := strconv.ParseFloat(t.Literal(), 64); err == nil {
			return 2
		}
		return 3
	case token.FLOAT:
		if _, err := strconv.ParseFloat(t.Literal(), 64); err == nil {
			return 2
		}
		return 3
	}
	return 0
}

func newLexer(src string, lineMode bool) *lexer.Lexer {
	if lineMode {
		return lexer.NewLineMode(src)
	}
	return lexer.NewBytes(exactBytes(src))
}

// lexAll returns every NextToken() result until the lexer is stuck on its end marker, followed
// by the end marker that all later calls return (checked on three further calls).  "Stuck" is:
// the position is past the end of the input (the lexer as shipped: every later call reads the
// virtual NUL), or a second call returns the marker again without moving (a lexer whose end
// marker is sticky).  An end marker in the middle (embedded NUL, lexer as shipped) is an ordinary
// element of the stream.
func lexAll(src string, lineMode bool) []tokRec {
	l := newLexer(src, lineMode)
	var recs []tokRec
	one := func() tokRec {
		pb := l.Pos()
		t := l.NextToken()
		return tokRec{t.Type(), t.Literal(), pb, l.Pos(), l.HadWhitespace(), l.HadNewline(), l.LastNewLine(), numClass(t)}
	}
	isEnd := func(r tokRec) bool { return r.typ == token.EOF || r.typ == token.EOL }
	var end tokRec
	r := one()
	for {
		recs = append(recs, r)
		if len(recs) > 2*len(src)+8 {
			panic("harness: lexer does not reach the end of the input")
		}
		next := one()
		if isEnd(r) && isEnd(next) && (r.pa > len(src) || next.pa == r.pa) {
			end = next
			break
		}
		r = next
	}
	for i := 0; i < 3; i++ {
		e := one()
		if e.typ != end.typ || e.lit != end.lit || e.ws || e.nl || e.lastNl != end.lastNl || end.ws || end.nl {
			panic("harness: lexer end marker is not stable")
		}
	}
	return append(recs, end)
}

func streamString(recs []tokRec, n int) string {
	var b strings.Builder
	b.WriteString(strconv.Itoa(n))
	b.WriteByte(';')
	for i, r := range recs {
		if i > 0 {
			b.WriteByte(',')
		}
		fl := r.num * 4
		if r.ws {
			fl |= 1
		}
		if r.nl {
			fl |= 2
		}
		fmt.Fprintf(&b, "%d.%s.%d.%d.%d.%d", int(r.typ), hx(r.lit), r.pb, r.pa, fl, r.lastNl)
	}
	return b.String()
}

// ---- canonical tree dump (same syntax as Grol.Node.dump) ----

func dumpTk(t *token.Token) string {
	if t == nil {
		return "niltoken"
	}
	return t.Type().String() + ":" + hx(t.Literal())
}

type dumper struct {
	b       strings.Builder
	noCom   bool // drop statement-level comments
	noFlags bool // omit the layout flags of comments
}

func (d *dumper) list(l []ast.Node, stmts bool) {
	for _, n := range l {
		if d.noCom && stmts {
			if _, ok := n.(*ast.Comment); ok {
				continue
			}
		}
		d.b.WriteByte(' ')
		d.node(n)
	}
}

func (d *dumper) stmts(s *ast.Statements) {
	if s == nil {
		d.b.WriteString("nil")
		return
	}
	d.b.WriteByte('{')
	d.list(s.Statements, true)
	d.b.WriteByte('}')
}

func (d *dumper) open(kind string, t *token.Token) {
	d.b.WriteByte('(')
	d.b.WriteString(kind)
	d.b.WriteByte(' ')
	d.b.WriteString(dumpTk(t))
}

func (d *dumper) blist(l []ast.Node) {
	d.b.WriteString(" [")
	d.list(l, false)
	d.b.WriteByte(']')
}

func (d *dumper) sub(n ast.Node) {
	d.b.WriteByte(' ')
	d.node(n)
}

func (d *dumper) node(n ast.Node) {
	if n == nil {
		d.b.WriteString("nil")
		return
	}
	switch v := n.(type) {
	case *ast.Identifier:
		d.open("Id", v.Token)
	case *ast.IntegerLiteral:
		d.open("Int", v.Token)
	case *ast.FloatLiteral:
		d.open("Float", v.Token)
	case *ast.StringLiteral:
		d.open("Str", v.Token)
	case *ast.Boolean:
		d.open("Bool", v.Token)
		if v.Val != (v.Token.Type() == token.TRUE) {
			d.b.WriteString(" BADVAL")
		}
	case *ast.ControlExpression:
		d.open("Ctl", v.Token)
	case *ast.Comment:
		d.open("Com", v.Token)
		if !d.noFlags {
			d.b.WriteString(" " + b2s(v.SameLineAsPrevious) + b2s(v.SameLineAsNext))
		}
	case *ast.ReturnStatement:
		d.open("Ret", v.Token)
		d.sub(v.ReturnValue)
	case *ast.PrefixExpression:
		d.open("Pre", v.Token)
		d.sub(v.Right)
	case *ast.PostfixExpression:
		d.open("Post", v.Token)
		d.b.WriteString(" " + dumpTk(v.Prev))
	case *ast.InfixExpression:
		d.open("Inf", v.Token)
		d.sub(v.Left)
		d.sub(v.Right)
	case *ast.ForExpression:
		d.open("For", v.Token)
		d.sub(v.Condition)
		d.b.WriteByte(' ')
		d.stmts(v.Body)
	case *ast.IfExpression:
		d.open("If", v.Token)
		d.sub(v.Condition)
		d.b.WriteByte(' ')
		d.stmts(v.Consequence)
		d.b.WriteByte(' ')
		d.stmts(v.Alternative)
	case *ast.Builtin:
		d.open("Bi", v.Token)
		d.blist(v.Parameters)
	case *ast.FunctionLiteral:
		d.open("Fn", v.Token)
		if v.Name == nil {
			d.b.WriteString(" nil")
		} else {
			d.b.WriteString(" " + dumpTk(v.Name.Token))
		}
		d.blist(v.Parameters)
		d.b.WriteByte(' ')
		d.stmts(v.Body)
		d.b.WriteString(" " + b2s(v.Variadic) + b2s(v.IsLambda))
	case *ast.CallExpression:
		d.open("Call", v.Token)
		d.sub(v.Function)
		d.blist(v.Arguments)
	case *ast.ArrayLiteral:
		d.open("Arr", v.Token)
		d.blist(v.Elements)
	case *ast.IndexExpression:
		d.open("Idx", v.Token)
		d.sub(v.Left)
		d.sub(v.Index)
	case *ast.MapLiteral:
		d.open("Map", v.Token)
		kvs := make([]ast.Node, 0, 2*len(v.Order))
		for _, k := range v.Order {
			kvs = append(kvs, k, v.Pairs[k])
		}
		d.blist(kvs)
	case *ast.MacroLiteral:
		d.open("Mac", v.Token)
		d.blist(v.Parameters)
		d.b.WriteByte(' ')
		d.stmts(v.Body)
	case *ast.Statements:
		d.b.WriteString("(Stmts ")
		d.stmts(v)
	default:
		d.b.WriteString(fmt.Sprintf("(UNKNOWN %T", n))
	}
	d.b.WriteByte(')')
}

func dumpProgram(p *ast.Statements, noCom, noFlags bool) string {
	d := &dumper{noCom: noCom, noFlags: noFlags}
	d.stmts(p)
	return d.b.String()
}

// ---- "no missing children" (same definition as Grol.Node.noNil) ----

func noNilList(l []ast.Node) bool {
	for _, n := range l {
		if !noNilNode(n) {
			return false
		}
	}
	return true
}

func noNilStmts(s *ast.Statements) bool { return s != nil && noNilList(s.Statements) }

func noNilNode(n ast.Node) bool {
	if n == nil {
		return false
	}
	switch v := n.(type) {
	case *ast.ReturnStatement:
		return v.ReturnValue == nil || noNilNode(v.ReturnValue) // plain `return` has no value by design
	case *ast.PrefixExpression:
		return noNilNode(v.Right)
	case *ast.PostfixExpression:
		return v.Prev != nil
	case *ast.InfixExpression:
		if v.Right == nil { // `a[n:]`
			return noNilNode(v.Left) && v.Token.Type() == token.COLON
		}
		return noNilNode(v.Left) && noNilNode(v.Right)
	case *ast.ForExpression:
		return noNilNode(v.Condition) && noNilStmts(v.Body)
	case *ast.IfExpression:
		return noNilNode(v.Condition) && noNilStmts(v.Consequence) && (v.Alternative == nil || noNilStmts(v.Alternative))
	case *ast.Builtin:
		return noNilList(v.Parameters)
	case *ast.FunctionLiteral:
		return noNilList(v.Parameters) && noNilStmts(v.Body)
	case *ast.CallExpression:
		return noNilNode(v.Function) && noNilList(v.Arguments)
	case *ast.ArrayLiteral:
		return noNilList(v.Elements)
	case *ast.IndexExpression:
		return noNilNode(v.Left) && noNilNode(v.Index)
	case *ast.MapLiteral:
		for _, k := range v.Order {
			if !noNilNode(k) || !noNilNode(v.Pairs[k]) {
				return false
			}
		}
		return true
	case *ast.MacroLiteral:
		return noNilList(v.Parameters) && noNilStmts(v.Body)
	}
	return true
}

// ---- running the real front end ----

type parseRes struct {
	prog     *ast.Statements
	panicked bool
	errs     int
	cont     bool
}

func parseReal(src string, lineMode bool) (res parseRes) {
	defer func() {
		if r := recover(); r != nil {
			res = parseRes{panicked: true}
		}
	}()
	p := parser.New(newLexer(src, lineMode))
	prog := p.ParseProgram()
	return parseRes{prog: prog, errs: len(p.Errors()), cont: p.ContinuationNeeded()}
}

func printReal(prog *ast.Statements, compact, allParens bool) (out string) {
	defer func() {
		if r := recover(); r != nil {
			out = "PANIC"
		}
	}()
	ps := ast.NewPrintState()
	ps.Compact = compact
	ps.AllParens = allParens
	return hx(prog.PrettyPrint(ps).String())
}

type obsWriter struct{ b strings.Builder }

func (o *obsWriter) kv(k, v string) {
	if o.b.Len() > 0 {
		o.b.WriteByte('|')
	}
	o.b.WriteString(k)
	o.b.WriteByte('=')
	o.b.WriteString(v)
}

var printModes = []struct {
	key                string
	compact, allParens bool
}{{"pn", false, false}, {"pc", true, false}, {"pa", false, true}, {"pca", true, true}}

// observeParse: stream, parse result, tree, and (when prints) the four printed forms.
func observeParse(o *obsWriter, pfx, src string, lineMode, prints bool) parseRes {
	o.kv(pfx+"toks", streamString(lexAll(src, lineMode), len(src)))
	r := parseReal(src, lineMode)
	o.kv(pfx+"p", b2s(r.panicked))
	if r.panicked {
		return r
	}
	o.kv(pfx+"e", strconv.Itoa(r.errs))
	o.kv(pfx+"c", b2s(r.cont))
	o.kv(pfx+"nn", b2s(noNilStmts(r.prog)))
	t := dumpProgram(r.prog, false, false)
	o.kv(pfx+"t", t)
	ts := dumpProgram(r.prog, false, true)
	if ts != t {
		o.kv(pfx+"ts", ts)
	}
	if tnc := dumpProgram(r.prog, true, true); tnc != ts {
		o.kv(pfx+"tnc", tnc)
	}
	if prints {
		for _, m := range printModes {
			o.kv(pfx+m.key, printReal(r.prog, m.compact, m.allParens))
		}
	}
	return r
}

func splitCut(input string) (src string, cut int, isCut bool) {
	if i := strings.IndexByte(input, '@'); i >= 0 {
		k, err := strconv.Atoi(input[i+1:])
		if err != nil {
			panic(err)
		}
		return unhx(input[:i]), k, true
	}
	return unhx(input), 0, false
}

func parseRun(input string) string {
	src, cut, isCut := splitCut(input)
	o := &obsWriter{}
	if isCut {
		observeParse(o, "W.", src, false, false)
		src = src[:cut]
	}
	observeParse(o, "F.", src, false, true)
	observeParse(o, "L.", src, true, true)
	return o.b.String()
}

// ---- generators ----

// the token alphabet of the exhaustive families (each entry is rendered verbatim)
var tokAlphabet = []string{
	"a", "b", "1", "2.5", `"s"`, "true", "..",
	"=", ":=", "+", "-", "!", "*", "/", "%", "<", "==", "&&", "||", "&", "|", "^", "~", "<<", "++", "--", "=>", ".", ":", ",", ";",
	"(", ")", "{", "}", "[", "]",
	"if", "else", "for", "func", "return", "break", "len", "macro", "quote",
	"// c\n", "/* c */", "\n", "@", "/*", `"`,
}

// a smaller alphabet for the longer sequences of the quick tier
var tokAlphabetSmall = []string{
	"a", "1", `"s"`, "..", "=", "+", "-", "!", "*", "==", "++", "=>", ".", ":", ",", ";",
	"(", ")", "{", "}", "[", "]", "if", "else", "for", "func", "return", "len", "// c\n", "/* c */", "\n",
}

func seqsOver(alpha []string, k int, f func([]string)) {
	idx := make([]int, k)
	cur := make([]string, k)
	for {
		for i := range idx {
			cur[i] = alpha[idx[i]]
		}
		f(cur)
		i := k - 1
		for ; i >= 0; i-- {
			idx[i]++
			if idx[i] < len(alpha) {
				break
			}
			idx[i] = 0
		}
		if i < 0 {
			return
		}
	}
}

// templates with holes (each _ ranges over the alphabet): one per grammar production, so that the
// error paths deep inside a production are reached with few free tokens
var holeTemplates = []string{
	"( _ , _ ) => _", "( a , _ ) => _ _", "_ => _ _", "a => _ _", "( _ ) => { _ }",
	"if _ { _ } else { _ }", "if a { _ } else _ _", "if _ { _ } _", "for _ { _ }", "for _ _ { _ }",
	"func _ ( _ ) { _ }", "func ( _ , _ ) { _ }", "func ( a ) _ _", "macro ( _ ) { _ }",
	"{ _ : _ , _ }", "{ a : _ _ _ }", "{ _ _ }", "a [ _ : _ ]", "a [ _ ] _", "a . _ _", "[ _ , _ ] _",
	"len ( _ , _ )", "a ( _ , _ ) _", "return _ _", "a _ b _ c", "- _ _", "a ++ _ _", "( _ _ )", "a = _ _ _",
	"x = func ( ) { _ _ }", "a _ ( _ )", "a _ [ _ ]", "{ _ : _ } _",
}

func allFiles(repo string) []string {
	var files []string
	for _, pat := range []string{"examples/*.gr", "tests/*.gr"} {
		m, _ := filepath.Glob(filepath.Join(repo, pat))
		sort.Strings(m)
		files = append(files, m...)
	}
	return files
}

func repoDir() string {
	if r := os.Getenv("VERIF_REPO"); r != "" {
		return r
	}
	return "/repo"
}

func randTokens(r *rng, alpha []string, n int) []string {
	l := make([]string, n)
	for i := range l {
		l[i] = alpha[r.intn(len(alpha))]
	}
	return l
}

func parseGen(tier string, r *rng, emit func(string)) {
	thorough := tier == "thorough"
	src := func(s string) { emit(hx(s)) }
	both := func(toks []string) {
		src(strings.Join(toks, " "))
		src(strings.Join(toks, ""))
	}
	src("")
	// what ends a comment and what follows it: every separator byte after every comment shape, followed by a token,
	// another comment or the end of the input (the parser relies on the lexer's newline flags there)
	for _, sep := range []string{"\n", "\r", "\r\n", "\t", "\v", "\f", " ", "\x00", "\u0085", "\u2028", ""} {
		for _, c := range []string{"//", "// c", "//c //d", "/* c */", "/**/", "/* a\nb */", "x = 1 // set x", "f( // arg", "[1, // one", "a /* c */"} {
			for _, next := range []string{"1", "y = 2", "// d", "/* e */", ")", "]", "", "\n1"} {
				src(c + sep + next)
			}
		}
	}
	// exhaustive short token sequences
	for k := 1; k <= 2; k++ {
		seqsOver(tokAlphabet, k, both)
	}
	if thorough {
		seqsOver(tokAlphabet, 3, both)
		seqsOver(tokAlphabetSmall, 4, func(t []string) { src(strings.Join(t, " ")) })
	} else {
		seqsOver(tokAlphabetSmall, 3, both)
		for i := 0; i < 12000; i++ {
			both(randTokens(r, tokAlphabet, 3))
		}
	}
	// templates with holes
	for _, tpl := range holeTemplates {
		parts := strings.Split(tpl, " ")
		var holes []int
		for i, p := range parts {
			if p == "_" {
				holes = append(holes, i)
			}
		}
		fill := func(vals []string) {
			cp := append([]string(nil), parts...)
			for j, h := range holes {
				cp[h] = vals[j]
			}
			src(strings.Join(cp, " "))
		}
		if len(holes) <= 2 {
			seqsOver(tokAlphabet, len(holes), fill)
		} else if thorough {
			seqsOver(tokAlphabetSmall, len(holes), fill)
			for i := 0; i < 20000; i++ {
				fill(randTokens(r, tokAlphabet, len(holes)))
			}
		} else {
			seqsOver(tokAlphabetSmall, len(holes), func(v []string) {
				if r.intn(8) == 0 {
					fill(v)
				}
			})
			for i := 0; i < 600; i++ {
				fill(randTokens(r, tokAlphabet, len(holes)))
			}
		}
	}
	// random token soups
	n := 6000
	if thorough {
		n = 200000
	}
	for i := 0; i < n; i++ {
		toks := randTokens(r, tokAlphabet, 4+r.intn(12))
		if r.intn(2) == 0 {
			src(strings.Join(toks, " "))
		} else {
			src(strings.Join(toks, ""))
		}
	}
	// grammar-generated programs (valid by construction, see format.go)
	n = 1500
	if thorough {
		n = 30000
	}
	for i := 0; i < n; i++ {
		src(genProgram(r, 1+r.intn(4)))
	}
	// truncations and byte mutations of the shipped programs; NUL and 0x80..0xFF bytes
	for _, f := range allFiles(repoDir()) {
		data, err := os.ReadFile(f)
		if err != nil {
			continue
		}
		s := string(data)
		src(s)
		cuts := 25
		if thorough {
			cuts = 400
		}
		if len(s) <= cuts {
			for k := 0; k < len(s); k++ {
				src(s[:k])
			}
		} else {
			for i := 0; i < cuts; i++ {
				src(s[:r.intn(len(s))])
			}
		}
		muts := 25
		if thorough {
			muts = 400
		}
		for i := 0; i < muts; i++ {
			src(mutate(r, s))
		}
	}
	for i := 0; i < 3000; i++ {
		src(mutate(r, genProgram(r, 1+r.intn(3))))
	}
	parseGapFamilies(tier, r, emit) // formatfam2.go
}

var mutBytes = []byte{0, 0x80, 0xff, 0xc3, '"', '`', '\\', '\n', ' ', '(', ')', '{', '}', '[', ']', '/', '*', '=', '>', ',', ';', ':', '.', '-', '+', 'e', '0', 'x', '_', '@'}

func mutate(r *rng, s string) string {
	b := []byte(s)
	n := 1 + r.intn(3)
	for i := 0; i < n && len(b) > 0; i++ {
		p := r.intn(len(b))
		switch r.intn(4) {
		case 0: // replace
			b[p] = mutBytes[r.intn(len(mutBytes))]
		case 1: // delete a short range
			q := p + 1 + r.intn(3)
			if q > len(b) {
				q = len(b)
			}
			b = append(b[:p:p], b[q:]...)
		case 2: // insert
			b = append(b[:p:p], append([]byte{mutBytes[r.intn(len(mutBytes))]}, b[p:]...)...)
		default: // random byte
			b[p] = byte(r.intn(256))
		}
	}
	return string(b)
}

// C15: every token-boundary cut (and some cuts inside strings / block comments) of valid programs
func parse15Gen(tier string, r *rng, emit func(string)) {
	thorough := tier == "thorough"
	emitCuts := func(s string, max int) {
		if p := parseReal(s, false); p.panicked || p.errs > 0 || p.cont {
			return
		}
		emit(hx(s))
		recs := lexAll(s, false)
		var cuts []int
		for _, t := range recs {
			if t.pa >= 1 && t.pa < len(s) {
				cuts = append(cuts, t.pa)
				if t.typ == token.STRING {
					cuts = append(cuts, t.pa-1) // just before the closing quote
				}
				if t.typ == token.BLOCKCOMMENT { // inside the comment
					start := t.pa - len(t.lit)
					for _, k := range []int{start + 1, start + 2, start + 3, t.pa - 2, t.pa - 1} {
						if k > start && k < t.pa {
							cuts = append(cuts, k)
						}
					}
				}
			}
		}
		if max > 0 && len(cuts) > max {
			for i := 0; i < max; i++ {
				emit(hx(s) + "@" + strconv.Itoa(cuts[r.intn(len(cuts))]))
			}
			return
		}
		for _, k := range cuts {
			emit(hx(s) + "@" + strconv.Itoa(k))
			if r.intn(4) == 0 { // part 1 on the prefix itself (file mode may accept it silently)
				emit(hx(s[:k]))
			}
		}
	}
	// fixed programs whose prefixes are the repaired C15 witnesses and their neighbours: `/*/`, `/**`, `/*/ x`,
	// `a /*/` (unterminated comments ending in a star or slash), `[()`, `f(()`, `x = ()` (empty parameter list)
	for _, s := range []string{"/*/ x */", "/** x */", "/**/", "/***/", "a /*/ b */", "/*/ x */ a", "a /*/ b */ c", "[/*/ */ 1]",
		"[() => 1]", "f(() => 1)", "x = () => 1", "() => 1", "[(() => 1)]", "{1: () => 2}"} {
		emitCuts(s, 0)
	}
	n := 1200
	if thorough {
		n = 20000
	}
	for i := 0; i < n; i++ {
		emitCuts(genProgram(r, 1+r.intn(3)), 0)
	}
	for _, f := range allFiles(repoDir()) {
		data, err := os.ReadFile(f)
		if err != nil {
			continue
		}
		max := 12
		if thorough {
			max = 0
		}
		emitCuts(string(data), max)
	}
	parse15GapFamilies(tier, r, emitCuts, emit) // parse15fam2.go
}

// exactBytes: the input as a slice whose capacity equals its length.  []byte(string) rounds the capacity up to an allocation class, which
// hides every slice expression of the lexer that runs past the END of the input (its position legitimately does, after a truncated
// \x \u \U escape) unless the length happens to be a class size (seeded change C08-8: CurrentLine without its clamp).
func exactBytes(src string) []byte {
	b := make([]byte, len(src))
	copy(b, src)
	return b[:len(b):len(b)]
}

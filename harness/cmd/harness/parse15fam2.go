package main

// C15 parts 1 and 2, families added by the review of the property text against parse15Gen:
// "one case per grammar production and position" — valid programs, one per production and nesting that the
// random program generator (genProgram) does not produce (comments inside brackets, parameter lists, else-if
// chains, nested lambdas, multi-line brackets, every builtin, open-ended slices, dot forms, escapes in
// strings), each with EVERY token-boundary cut (emitCuts of parse15Gen), and
// "inside an unclosed ... string or block comment" — a cut at EVERY byte inside every string and block
// comment token (parse15Gen only cuts just before the closing quote and at 5 places of a comment), including
// comments that start with `/*/` (the recorded finding) and strings ending in a backslash or half an escape.

import (
	"strconv"

	"grol.io/grol/token"
)

var parse15Programs = []string{
	"[1, // c\n 2]", "[1 /* c */, 2]", "f(/* c */ a)", "{/* c */ 1: 2}", "(/* c */ a)", "a = /* c */ b", "a = // c\n b",
	"f(a, (x, y) => x + y, () => 1)", "if a {b} else if c {d} else {e}", "func f(a, b, ..) {a; b}", "x = [(a, b) => {a}, () => {1}]",
	"for i = 0:10 { if i > 5 { break } else { continue } }", "m = {\"a\": [1, 2, {3: 4}], \"b\": x => x}",
	"a[1:]", "a[b:c]", "f(a[1:], b)", "println(\"a\\\"b\", `raw`)", "x = (1 + 2) * (3 - -4)", "macro(x, y) { quote(unquote(x) + unquote(y)) }",
	"func() { return }", "func() { return 1 }", "func(){a}()", "a.b.c(1)[2]", "a++\nb--", "x = func(a) { /* c */ a // d\n}",
	"(a)", "((a))", "[[a]]", "{1:{2:3}}", "f(g(h(1)))", "a = b = c", "a := 1", "-(-a)", "!(a && b)", "x => y => z", "(x => x)(1)",
	"if (a) {b}", "for a < b {c}", "for i := 10 {i}", "f(\n1,\n2\n)", "[\n1,\n2\n]", "{\n1:2,\n3:4\n}", "a = 1 +\n2", "a = (\n1\n)",
	"len([1,2])", "first(rest(a))", "del(a.b)", "error(\"x\")", "catch(f())", "log(\"a\", 1)", "print()", "quote(a + b)",
	"/* c */ a", "a /* c */", "a /* c1 */ /* c2 */ b", "f(a, /* c */ b)", "f(a /* c */, b)", "[/* c */]", "f(/* c */)",
	"f(\"s\" /* c */)", "x = \"a\" + `b` + \"c\\n\"", "a = [1,2,3][1:2]", "a = {1:2}.b", "(() => 1)()", "(a, b) => a", "((a, b) => a)(1, 2)",
	"if a { /* c */ } else { // d\n }", "a = if b {c} else {d}", "f(if b {c} else {d})",
	"x = 1; y = 2", "x = 1; // c\ny", "a ; b", "a = -1", "a = !b", "a = ~b", "a = ^b", "++a", "--a", "a = ++b",
	"a.\"b\"", "a.true", "a.(b)", "a.(..)", "a[b].c[d]", "a == b != c", "a < b == c > d", "a | b & c ^ d", "a << 1 >> 2", "a % b / c * d", "a || b && c",
	"/*/ x */ a", "a = /*/ */ 1", "f(/*/*/)", "[1, /*/ c */ 2]", "/*** c ***/ a", "/* a */ /*/ b */",
	"\"a\\\\\"", "\"\\x41\\u00e9\\U0001F600\"", "x = \"a\\\\\" + \"b\"", "f(\"\\\"\", `\\`)", "\"multi\nline\" + `raw\nline`", "a = \"\" + ``",
	"func f() {\n\tif a {\n\t\treturn [1,\n\t\t\t2]\n\t}\n\tg(x => {\n\t\tx\n\t})\n}",
	"m = macro(a, b) {\n\tquote(if unquote(a) {\n\t\tunquote(b)\n\t})\n}\nm(true, println(1))",
}

func parse15GapFamilies(tier string, r *rng, emitCuts func(string, int), emit func(string)) {
	for _, s := range parse15Programs {
		if p := parseReal(s, false); p.panicked || p.errs > 0 || p.cont {
			continue // (would be a generator bug: every entry is a valid program)
		}
		emitCuts(s, 0)
		for _, t := range lexAll(s, false) {
			switch t.typ {
			case token.STRING:
				// t.pb..t.pa spans the whitespace skipped before the token: the literal starts at the first other byte
				start := t.pb
				for start < t.pa && isSpaceByte(s[start]) {
					start++
				}
				for k := start + 1; k < t.pa; k++ {
					emit(hx(s) + "@" + strconv.Itoa(k))
				}
			case token.BLOCKCOMMENT:
				start := t.pa - len(t.lit)
				for k := start + 2; k < t.pa; k++ {
					emit(hx(s) + "@" + strconv.Itoa(k))
				}
			}
		}
	}
}

func isSpaceByte(b byte) bool { return b == ' ' || b == '\t' || b == '\n' || b == '\r' }

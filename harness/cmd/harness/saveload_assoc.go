// slFlattenAssoc (saveload suite, C14): the tree dump with every chain of ONE associative operator
// (+ * && || & | ^: the operators for which ast.InfixExpression.PrettyPrint drops the parentheses of a
// right operand, the recorded printer finding "repeated-associative-operator-on-the-right") flattened
// into one n-ary node.  Two dumps that are equal after flattening differ only by the association
// inside such chains; a function whose printed form parses back to ANY other tree gets no class.
package main

import "strings"

type sexp struct {
	atom string
	kids []*sexp
}

func parseSexp(s string, pos int) (*sexp, int) {
	for pos < len(s) && s[pos] == ' ' {
		pos++
	}
	if pos < len(s) && s[pos] == '(' {
		n := &sexp{}
		pos++
		for pos < len(s) && s[pos] != ')' {
			var k *sexp
			k, pos = parseSexp(s, pos)
			n.kids = append(n.kids, k)
			for pos < len(s) && s[pos] == ' ' {
				pos++
			}
		}
		return n, pos + 1
	}
	start := pos
	for pos < len(s) && s[pos] != ' ' && s[pos] != '(' && s[pos] != ')' {
		pos++
	}
	return &sexp{atom: s[start:pos]}, pos
}

var slAssocOps = map[string]bool{"PLUS": true, "ASTERISK": true, "AND": true, "OR": true, "BITAND": true, "BITOR": true, "BITXOR": true}

func (n *sexp) isInfix(op string) bool {
	return len(n.kids) == 4 && n.kids[0].atom == "in" && n.kids[1].atom == op
}

func (n *sexp) operands(op string, out *[]*sexp) {
	if n.isInfix(op) {
		n.kids[2].operands(op, out)
		n.kids[3].operands(op, out)
		return
	}
	*out = append(*out, n)
}

func (n *sexp) flat(sb *strings.Builder) {
	if n.kids == nil {
		sb.WriteString(n.atom)
		return
	}
	if len(n.kids) == 4 && n.kids[0].atom == "in" && slAssocOps[n.kids[1].atom] {
		var ops []*sexp
		n.operands(n.kids[1].atom, &ops)
		sb.WriteString("(chain " + n.kids[1].atom)
		for _, o := range ops {
			sb.WriteByte(' ')
			o.flat(sb)
		}
		sb.WriteByte(')')
		return
	}
	sb.WriteByte('(')
	for i, k := range n.kids {
		if i > 0 {
			sb.WriteByte(' ')
		}
		k.flat(sb)
	}
	sb.WriteByte(')')
}

// the shape text is `<hex param> ... <0|1> <dump of the body>`: flatten every parenthesised part
func slFlattenAssoc(shape string) string {
	var sb strings.Builder
	pos := 0
	for pos < len(shape) {
		if shape[pos] == '(' {
			var n *sexp
			n, pos = parseSexp(shape, pos)
			n.flat(&sb)
			continue
		}
		sb.WriteByte(shape[pos])
		pos++
	}
	return sb.String()
}

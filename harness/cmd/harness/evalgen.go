package main

import (
	"fmt"
	"strconv"
	"strings"
)

// Typed random program generator for the eval suite.  Expressions are rendered with
// minimal parentheses from the documented precedence levels, so precedence and
// associativity of the real parser are exercised.

type gtype int

const (
	tInt gtype = iota
	tFloat
	tBool
	tStr
	tArr // array of ints
	tMap // map string -> int
	tNil
)

type gvar struct {
	name string
	t    gtype
}

type gfunc struct {
	name   string
	params []gtype
	ret    gtype
}

type pgen struct {
	r       *rng
	vars    []gvar  // variables in scope (innermost last)
	funcs   []gfunc // callable functions
	nvar    int
	nfunc   int
	depth   int
	inFunc  bool
	inLoop  int
	noPrint bool
	wild    bool // allow ill-typed operands (C07 stream)
	bigOK   bool // allow containers above the small thresholds (never mutated afterwards)
	loopVar map[string]bool
}

// precedence levels as documented in ast/ast.go (ast.Priority); note `/` binds tighter than `*`,
// and `& << >> %` sit with `*`, `| ^` with `+`.
const (
	pLowest = iota
	pAssign
	pOr
	pAnd // also the range operator `:`
	pLambda
	pEquals
	pLess
	pSum     // + - | ^
	pProduct // * % & << >>
	pDivide  // /
	pPrefix
	pCall
	pAtom
)

type gexpr struct {
	s string
	p int
}

func (e gexpr) at(min int) string {
	if e.p < min {
		return "(" + e.s + ")"
	}
	return e.s
}

func (g *pgen) pick(n int) int { return g.r.intn(n) }

func (g *pgen) chance(pct int) bool { return g.r.intn(100) < pct }

var boundaryInts = []string{"0", "1", "2", "3", "7", "8", "9", "10", "63", "64", "65", "255", "256", "1000",
	"9223372036854775807", "4611686018427387904", "9007199254740993", "2147483648"}

func (g *pgen) intLit() gexpr {
	if g.chance(70) {
		return gexpr{strconv.Itoa(g.pick(12)), pAtom}
	}
	s := boundaryInts[g.pick(len(boundaryInts))]
	if g.chance(25) {
		return gexpr{"-" + s, pPrefix}
	}
	return gexpr{s, pAtom}
}

var floatLits = []string{"0.5", "1.5", "2.0", "3.25", "0.1", "1e3", "2.5e-3", "100.0", "0.0", "1e308", "4.9e-324", ".5"}

func (g *pgen) varsOf(t gtype) []gvar {
	var res []gvar
	for _, v := range g.vars {
		if v.t == t {
			res = append(res, v)
		}
	}
	return res
}

func (g *pgen) funcsRet(t gtype) []gfunc {
	var res []gfunc
	for _, f := range g.funcs {
		if f.ret == t {
			res = append(res, f)
		}
	}
	return res
}

func bin(l gexpr, op string, r gexpr, p int, rightAssoc bool) gexpr {
	// left-assoc: right operand needs strictly higher precedence
	ls, rs := l.at(p), r.at(p+1)
	if rightAssoc {
		ls, rs = l.at(p+1), r.at(p)
	}
	return gexpr{ls + " " + op + " " + rs, p}
}

func (g *pgen) call(f gfunc) gexpr {
	args := make([]string, len(f.params))
	for i, t := range f.params {
		args[i] = g.expr(t).at(pLowest + 1)
	}
	return gexpr{f.name + "(" + strings.Join(args, ", ") + ")", pCall}
}

func (g *pgen) expr(t gtype) gexpr {
	g.depth++
	defer func() { g.depth-- }()
	if g.wild && g.chance(4) {
		t = gtype(g.pick(7))
	}
	leaf := g.depth > 4 || g.chance(30)
	switch t {
	case tInt:
		if vs := g.varsOf(tInt); len(vs) > 0 && g.chance(45) {
			return gexpr{vs[g.pick(len(vs))].name, pAtom}
		}
		if leaf {
			return g.intLit()
		}
		switch g.pick(16) {
		case 0, 1:
			return bin(g.expr(tInt), "+", g.expr(tInt), pSum, false)
		case 2:
			return bin(g.expr(tInt), "-", g.expr(tInt), pSum, false)
		case 3:
			return bin(g.expr(tInt), "*", g.expr(tInt), pProduct, false)
		case 4:
			// divisor forced non-zero unless wild
			d := g.expr(tInt)
			if !g.wild {
				d = gexpr{"(" + d.s + " | 1)", pAtom}
			}
			if g.chance(50) {
				return bin(g.expr(tInt), "%", d, pProduct, false)
			}
			return bin(g.expr(tInt), "/", d, pDivide, false)
		case 5:
			ops := []string{"&", "|", "^"}
			ps := []int{pProduct, pSum, pSum}
			i := g.pick(3)
			return bin(g.expr(tInt), ops[i], g.expr(tInt), ps[i], false)
		case 6:
			op := "<<"
			if g.chance(50) {
				op = ">>"
			}
			cnt := gexpr{strconv.Itoa(g.pick(70)), pAtom}
			if g.wild && g.chance(20) {
				cnt = g.expr(tInt)
			}
			return bin(g.expr(tInt), op, cnt, pProduct, false)
		case 7:
			ops := []string{"-", "~", "+"}
			return gexpr{ops[g.pick(3)] + g.expr(tInt).at(pPrefix), pPrefix}
		case 8:
			return gexpr{"len(" + g.expr([]gtype{tStr, tArr, tMap}[g.pick(3)]).s + ")", pCall}
		case 9:
			// index into array / string
			if g.chance(50) {
				return gexpr{g.expr(tArr).at(pCall) + "[" + g.smallIdx() + "]", pCall}
			}
			return gexpr{g.expr(tStr).at(pCall) + "[" + g.smallIdx() + "]", pCall}
		case 10:
			if fs := g.funcsRet(tInt); len(fs) > 0 {
				return g.call(fs[g.pick(len(fs))])
			}
			return g.intLit()
		case 11:
			return gexpr{"if " + g.expr(tBool).s + " {" + g.expr(tInt).s + "} else {" + g.expr(tInt).s + "}", pLowest}
		case 12:
			m := g.expr(tMap)
			return gexpr{m.at(pCall) + "[" + g.strLit() + "]", pCall}
		case 13:
			return gexpr{"first(" + g.expr(tArr).s + ")", pCall}
		default:
			return g.intLit()
		}
	case tFloat:
		if vs := g.varsOf(tFloat); len(vs) > 0 && g.chance(40) {
			return gexpr{vs[g.pick(len(vs))].name, pAtom}
		}
		if leaf {
			return gexpr{floatLits[g.pick(len(floatLits))], pAtom}
		}
		switch g.pick(6) {
		case 0:
			return bin(g.expr(tFloat), "+", g.expr(tFloat), pSum, false)
		case 1:
			return bin(g.expr(tFloat), "-", g.expr(tInt), pSum, false)
		case 2:
			return bin(g.expr(tInt), "*", g.expr(tFloat), pProduct, false)
		case 3:
			return bin(g.expr(tFloat), "/", g.expr(tFloat), pDivide, false)
		case 4:
			return gexpr{"-" + g.expr(tFloat).at(pPrefix), pPrefix}
		default:
			if fs := g.funcsRet(tFloat); len(fs) > 0 {
				return g.call(fs[g.pick(len(fs))])
			}
			return gexpr{floatLits[g.pick(len(floatLits))], pAtom}
		}
	case tBool:
		if vs := g.varsOf(tBool); len(vs) > 0 && g.chance(30) {
			return gexpr{vs[g.pick(len(vs))].name, pAtom}
		}
		if leaf {
			if g.chance(50) {
				return gexpr{"true", pAtom}
			}
			return gexpr{"false", pAtom}
		}
		switch g.pick(8) {
		case 0, 1:
			ops := []string{"<", "<=", ">", ">="}
			tt := []gtype{tInt, tInt, tFloat, tStr}[g.pick(4)]
			return bin(g.expr(tt), ops[g.pick(4)], g.expr(tt), pLess, false)
		case 2:
			ops := []string{"==", "!="}
			tt := []gtype{tInt, tStr, tArr, tBool, tMap, tFloat}[g.pick(6)]
			return bin(g.expr(tt), ops[g.pick(2)], g.expr(tt), pEquals, false)
		case 3:
			return bin(g.expr(tBool), "&&", g.expr(tBool), pAnd, false)
		case 4:
			return bin(g.expr(tBool), "||", g.expr(tBool), pOr, false)
		case 5:
			return gexpr{"!" + g.expr(tBool).at(pPrefix), pPrefix}
		case 6:
			// mixed int/float comparison, often on numerically equal values
			ops := []string{"<", "<=", ">", ">=", "==", "!="}
			op := ops[g.pick(6)]
			pr := pLess
			if op == "==" || op == "!=" {
				pr = pEquals
			}
			if g.chance(50) {
				k := g.pick(6)
				l, rr := gexpr{strconv.Itoa(k), pAtom}, gexpr{strconv.Itoa(k) + ".0", pAtom}
				if vs := g.varsOf(tInt); len(vs) > 0 && g.chance(50) {
					l = gexpr{vs[g.pick(len(vs))].name, pAtom}
				}
				if g.chance(50) {
					l, rr = rr, l
				}
				return bin(l, op, rr, pr, false)
			}
			return bin(g.expr(tInt), op, g.expr(tFloat), pr, false)
		default:
			if fs := g.funcsRet(tBool); len(fs) > 0 {
				return g.call(fs[g.pick(len(fs))])
			}
			return gexpr{"true", pAtom}
		}
	case tStr:
		if vs := g.varsOf(tStr); len(vs) > 0 && g.chance(40) {
			return gexpr{vs[g.pick(len(vs))].name, pAtom}
		}
		if leaf {
			return gexpr{g.strLit(), pAtom}
		}
		switch g.pick(6) {
		case 0, 1:
			return bin(g.expr(tStr), "+", g.expr(tStr), pSum, false)
		case 2:
			return bin(g.expr(tStr), "*", gexpr{strconv.Itoa(g.pick(4)), pAtom}, pProduct, false)
		case 3:
			return gexpr{g.expr(tStr).at(pCall) + "[" + g.sliceIdx() + "]", pCall}
		case 4:
			if fs := g.funcsRet(tStr); len(fs) > 0 {
				return g.call(fs[g.pick(len(fs))])
			}
			return gexpr{g.strLit(), pAtom}
		default:
			return gexpr{"rest(" + g.expr(tStr).s + ")", pCall}
		}
	case tArr:
		if vs := g.varsOf(tArr); len(vs) > 0 && g.chance(50) {
			return gexpr{vs[g.pick(len(vs))].name, pAtom}
		}
		if leaf {
			return g.arrLit()
		}
		switch g.pick(7) {
		case 0:
			return bin(g.expr(tArr), "+", g.arrLit(), pSum, false)
		case 1:
			return bin(g.arrLit(), "+", g.expr(tInt), pSum, false)
		case 2:
			return gexpr{g.expr(tArr).at(pCall) + "[" + g.sliceIdx() + "]", pCall}
		case 3:
			return gexpr{"rest(" + g.expr(tArr).s + ")", pCall}
		case 4:
			lo, hi := g.pick(4), g.pick(6)
			return gexpr{strconv.Itoa(lo) + ":" + strconv.Itoa(lo+hi), pLowest}
		case 5:
			if g.bigOK {
				return bin(g.arrLit(), "*", gexpr{strconv.Itoa(g.pick(6)), pAtom}, pProduct, false)
			}
			return g.arrLit()
		default:
			if fs := g.funcsRet(tArr); len(fs) > 0 {
				return g.call(fs[g.pick(len(fs))])
			}
			return g.arrLit()
		}
	case tMap:
		if vs := g.varsOf(tMap); len(vs) > 0 && g.chance(50) {
			return gexpr{vs[g.pick(len(vs))].name, pAtom}
		}
		if leaf || g.chance(60) {
			return g.mapLit()
		}
		switch g.pick(3) {
		case 0:
			return bin(g.expr(tMap), "+", g.mapLit(), pSum, false)
		case 1:
			return gexpr{"rest(" + g.mapLit().s + ")", pCall}
		default:
			return g.mapLit()
		}
	default:
		return gexpr{"nil", pAtom}
	}
}

var strPool = []string{`"a"`, `"b"`, `"ab"`, `""`, `"hello"`, `"x y"`, `"k1"`, `"k2"`, `"k3"`, `"q\"uote"`, `"tab\t"`, `"nl\n"`, "`raw`"}

func (g *pgen) strLit() string { return strPool[g.pick(len(strPool))] }

func (g *pgen) smallIdx() string {
	return []string{"0", "1", "2", "3", "-1", "-2", "-3", "-4", "5", "9", "-9"}[g.pick(11)]
}

func (g *pgen) sliceIdx() string {
	a := []string{"0", "1", "2", "-1", "-2", "4", "-7"}[g.pick(7)]
	if g.chance(35) {
		return a + ":"
	}
	b := []string{"0", "1", "2", "3", "-1", "7", "12"}[g.pick(7)]
	return a + ":" + b
}

func (g *pgen) arrLit() gexpr {
	n := g.pick(4)
	if g.bigOK && g.chance(20) {
		n = 7 + g.pick(5)
	}
	parts := make([]string, n)
	for i := range parts {
		parts[i] = g.expr(tInt).at(pLowest + 1)
	}
	return gexpr{"[" + strings.Join(parts, ", ") + "]", pAtom}
}

func (g *pgen) mapLit() gexpr {
	n := g.pick(4)
	if g.bigOK && g.chance(20) {
		n = 4 + g.pick(4)
	}
	parts := make([]string, n)
	keys := []string{`"k1"`, `"k2"`, `"k3"`, `"a"`, `"b"`, `"c"`, `"d"`, `"e"`}
	for i := range parts {
		parts[i] = keys[g.pick(len(keys))] + ":" + g.expr(tInt).at(pLowest+1)
	}
	return gexpr{"{" + strings.Join(parts, ", ") + "}", pAtom}
}

func (g *pgen) newVar(t gtype) gvar {
	g.nvar++
	v := gvar{fmt.Sprintf("%c%d", "ixbsamn"[t], g.nvar), t}
	return v
}

func (g *pgen) block(n int) string {
	saved := len(g.vars)
	var sb strings.Builder
	sb.WriteString("{\n")
	for i := 0; i < n; i++ {
		sb.WriteString(g.stmt())
		sb.WriteString("\n")
	}
	sb.WriteString("}")
	// variables created inside a block live on in grol (no block scope), but whether the block
	// ran is dynamic: forget them
	g.vars = g.vars[:saved]
	return sb.String()
}

func (g *pgen) assignable(t gtype) (gvar, bool) {
	vs := g.varsOf(t)
	var ok []gvar
	for _, v := range vs {
		if !g.loopVar[v.name] {
			ok = append(ok, v)
		}
	}
	if len(ok) == 0 {
		return gvar{}, false
	}
	return ok[g.pick(len(ok))], true
}

func (g *pgen) stmt() string {
	g.depth++
	defer func() { g.depth-- }()
	k := g.pick(20)
	if g.depth > 3 && k >= 8 && k <= 12 {
		k = 0
	}
	switch k {
	case 0, 1, 2:
		t := gtype(g.pick(6))
		if v, ok := g.assignable(t); ok && g.chance(40) {
			return v.name + " = " + g.expr(t).s
		}
		e := g.expr(t).s
		v := g.newVar(t)
		g.vars = append(g.vars, v)
		op := " = "
		if g.inFunc && g.chance(40) {
			op = " := "
		}
		return v.name + op + e
	case 3:
		if v, ok := g.assignable(tInt); ok {
			return v.name + []string{"++", "--"}[g.pick(2)]
		}
		return g.stmt2()
	case 4:
		if v, ok := g.assignable(tArr); ok {
			return v.name + "[" + g.smallIdx() + "] = " + g.expr(tInt).s
		}
		return g.stmt2()
	case 5:
		if v, ok := g.assignable(tMap); ok {
			switch g.pick(4) {
			case 0:
				return v.name + "[" + g.strLit() + "] = " + g.expr(tInt).s
			case 1:
				return v.name + ".k" + strconv.Itoa(1+g.pick(3)) + " = " + g.expr(tInt).s
			case 2:
				return "del(" + v.name + "[" + g.strLit() + "])"
			default:
				return "del(" + v.name + ".k" + strconv.Itoa(1+g.pick(3)) + ")"
			}
		}
		return g.stmt2()
	case 6, 7:
		return g.stmt2()
	case 8:
		s := "if " + g.expr(tBool).s + " " + g.block(1+g.pick(3))
		if g.chance(50) {
			s += " else " + g.block(1+g.pick(2))
		}
		return s
	case 9:
		// counted loop with a register candidate loop variable; the variable is not used outside
		g.nvar++
		lv := fmt.Sprintf("j%d", g.nvar)
		g.vars = append(g.vars, gvar{lv, tInt})
		g.loopVar[lv] = true
		g.inLoop++
		hdr := "for " + lv + " = " + strconv.Itoa(g.pick(3)) + ":" + strconv.Itoa(2+g.pick(5))
		if g.chance(30) {
			hdr = "for " + lv + " = " + strconv.Itoa(g.pick(6))
		}
		body := g.block(1 + g.pick(3))
		g.inLoop--
		g.dropVar(lv)
		return hdr + " " + body
	case 10:
		// loop over a container
		g.nvar++
		lv := fmt.Sprintf("e%d", g.nvar)
		var src string
		var vt gtype
		switch g.pick(3) {
		case 0:
			src, vt = g.expr(tArr).s, tInt
		case 1:
			src, vt = g.expr(tStr).s, tStr
		default:
			src, vt = g.mapLit().s, tNil
		}
		g.vars = append(g.vars, gvar{lv, vt})
		g.loopVar[lv] = true
		g.inLoop++
		body := g.block(1 + g.pick(2))
		g.inLoop--
		g.dropVar(lv)
		return "for " + lv + " = " + src + " " + body
	case 11:
		// condition loop driven by a fresh counter
		c := g.newVar(tInt)
		g.vars = append(g.vars, c)
		g.loopVar[c.name] = true
		g.inLoop++
		body := g.block(1 + g.pick(2))
		g.inLoop--
		delete(g.loopVar, c.name)
		// the counter is incremented FIRST: a `continue` in the body must not skip it (it would loop forever)
		body = "{\n" + c.name + "++\n" + strings.TrimPrefix(body, "{\n")
		return c.name + " = 0\nfor " + c.name + " < " + strconv.Itoa(1+g.pick(4)) + " " + body
	case 12:
		// N times loop
		g.inLoop++
		body := g.block(1 + g.pick(2))
		g.inLoop--
		return "for " + strconv.Itoa(g.pick(4)) + " " + body
	case 13:
		if g.inLoop > 0 && g.chance(60) {
			return "if " + g.expr(tBool).s + " {" + []string{"break", "continue"}[g.pick(2)] + "}"
		}
		if g.inFunc && g.chance(50) {
			return "if " + g.expr(tBool).s + " {return " + g.expr(tInt).s + "}"
		}
		return g.stmt2()
	default:
		return g.stmt2()
	}
}

func (g *pgen) dropVar(name string) {
	delete(g.loopVar, name)
	for i := len(g.vars) - 1; i >= 0; i-- {
		if g.vars[i].name == name {
			g.vars = append(g.vars[:i], g.vars[i+1:]...)
			return
		}
	}
}

// print or expression statement
func (g *pgen) stmt2() string {
	if !g.noPrint && g.chance(60) {
		n := 1 + g.pick(3)
		parts := make([]string, n)
		for i := range parts {
			parts[i] = g.expr([]gtype{tInt, tStr, tBool, tArr, tMap, tInt}[g.pick(6)]).at(pLowest + 1)
		}
		fn := "println"
		if g.chance(25) {
			fn = "print"
		}
		return fn + "(" + strings.Join(parts, ", ") + ")"
	}
	return g.expr(gtype(g.pick(6))).s
}

// a function definition statement; registers the function for later calls
func (g *pgen) funcDef() string {
	g.nfunc++
	name := fmt.Sprintf("f%d", g.nfunc)
	np := g.pick(4)
	params := make([]gtype, np)
	names := make([]string, np)
	savedVars := g.vars
	savedLoop := g.loopVar
	// the body sees globals defined so far (captured by reference) plus its parameters
	body := &pgen{r: g.r, funcs: g.funcs, nvar: g.nvar + 100*g.nfunc, nfunc: g.nfunc, inFunc: true, depth: 1,
		noPrint: g.noPrint, wild: g.wild, bigOK: false, loopVar: map[string]bool{}}
	if g.chance(60) {
		body.vars = append(body.vars, g.vars...)
		for _, v := range g.vars {
			if g.loopVar[v.name] {
				body.loopVar[v.name] = true
			}
		}
	}
	for i := range params {
		params[i] = []gtype{tInt, tInt, tStr, tArr, tFloat, tBool}[g.pick(6)]
		names[i] = fmt.Sprintf("p%d_%d", g.nfunc, i)
		body.vars = append(body.vars, gvar{names[i], params[i]})
	}
	ret := []gtype{tInt, tInt, tStr, tBool, tArr, tFloat}[g.pick(6)]
	var sb strings.Builder
	n := g.pick(4)
	for i := 0; i < n; i++ {
		sb.WriteString(body.stmt() + "\n")
	}
	// optional self recursion on a decreasing first int parameter
	if np > 0 && params[0] == tInt && ret == tInt && g.chance(40) {
		args := []string{names[0] + " - 1"}
		for i := 1; i < np; i++ {
			args = append(args, body.expr(params[i]).at(pLowest+1))
		}
		callee := name
		if g.chance(30) {
			callee = "self"
		}
		sb.WriteString("if " + names[0] + " <= 0 || " + names[0] + " > 6 {return " + body.expr(tInt).s + "}\n")
		sb.WriteString(body.expr(tInt).at(pSum+1) + " + " + callee + "(" + strings.Join(args, ", ") + ")\n")
	} else {
		sb.WriteString(body.expr(ret).s + "\n")
	}
	g.vars = savedVars
	g.loopVar = savedLoop
	g.nvar = body.nvar
	f := gfunc{name, params, ret}
	var def string
	switch g.pick(3) {
	case 0:
		def = "func " + name + "(" + strings.Join(names, ", ") + ") {\n" + sb.String() + "}"
	case 1:
		def = name + " = func(" + strings.Join(names, ", ") + ") {\n" + sb.String() + "}"
	default:
		if np == 1 {
			def = name + " = " + names[0] + " => {\n" + sb.String() + "}"
		} else {
			def = name + " = (" + strings.Join(names, ", ") + ") => {\n" + sb.String() + "}"
		}
	}
	g.funcs = append(g.funcs, f)
	return def
}

// genEvalProgram returns a list of top-level statements (each a complete input)
func genEvalProgram(r *rng, nStmts int, wild, bigOK bool) []string {
	g := &pgen{r: r, loopVar: map[string]bool{}, wild: wild, bigOK: bigOK}
	var res []string
	for i := 0; i < nStmts; i++ {
		if g.chance(25) && len(g.funcs) < 4 {
			res = append(res, g.funcDef())
		} else {
			g.depth = 0
			res = append(res, g.stmt())
		}
	}
	// final value: something depending on the state
	g.depth = 0
	res = append(res, g.expr([]gtype{tInt, tArr, tStr, tMap, tBool, tFloat}[g.pick(6)]).s)
	return res
}

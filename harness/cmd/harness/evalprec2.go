package main

import (
	"strconv"
)

// Exhaustive operator-PAIR family of the precedence cases (C01): for every ordered pair of binary operators
// (op1, op2) of the documented table, the unparenthesised text `x op1 y op2 z` together with the tree the
// documentation promises (the higher level binds tighter, equal levels group to the left), for operand triples
// chosen so that the two groupings differ in value; plus every prefix operator in front of every binary one.
// A moved table entry or a changed associativity gives a differing value on some pair (the random family
// of evalprec.go reaches a given adjacent pair only now and then).

type precOperand struct{ kind, txt string }

func precAllOps() []popdef {
	var all []popdef
	for _, t := range [][]popdef{pIntOps, pCmpOps, pEqOps, pBoolOps} {
		all = append(all, t...)
	}
	return all
}

// operand kind an operator takes ("int", "bool", "any") and the kind it yields
func precOpKinds(o popdef) (string, string) {
	switch o.prec {
	case pSum, pProduct, pDivide:
		return "int", "int"
	case pLess:
		return "int", "bool"
	case pEquals:
		return "any", "bool"
	default:
		return "bool", "bool"
	}
}

func precLeaf(kind string, i int) *pnode {
	if kind == "bool" {
		return &pnode{kind: "bool", txt: []string{"true", "false", "false", "true"}[i%4]}
	}
	return &pnode{kind: "int", txt: strconv.Itoa([]int{7, 3, 5, 2, 9, 12, 1, 6, 4}[i%9])}
}

// genPrecPairs returns the inputs (text^tree) of the session number k (25 pairs per session)
func genPrecPairs(k int) []string {
	ops := precAllOps()
	var items []string
	add := func(e *pnode) {
		items = append(items, hx("println("+e.render()+")")+"^"+hx("(stmts (bi PRINTLN "+e.sexp()+"))"))
	}
	for i, o1 := range ops {
		for j, o2 := range ops {
			in1, out1 := precOpKinds(o1)
			in2, out2 := precOpKinds(o2)
			for v := 0; v < 2; v++ {
				var e *pnode
				if o1.prec >= o2.prec { // (x o1 y) o2 z
					if in2 != "any" && in2 != out1 {
						continue
					}
					k1 := in1
					if k1 == "any" {
						k1 = "int"
					}
					k2 := in2
					if k2 == "any" {
						k2 = out1
					}
					e = &pnode{kind: "in", op: o2.name, txt: o2.txt,
						l: &pnode{kind: "in", op: o1.name, txt: o1.txt, l: precLeaf(k1, i+v), r: precLeaf(k1, j+v+1)}, r: precLeaf(k2, i+j+v+2)}
				} else { // x o1 (y o2 z)
					if in1 != "any" && in1 != out2 {
						continue
					}
					k2 := in2
					if k2 == "any" {
						k2 = "int"
					}
					k1 := in1
					if k1 == "any" {
						k1 = out2
					}
					e = &pnode{kind: "in", op: o1.name, txt: o1.txt, l: precLeaf(k1, i+v),
						r: &pnode{kind: "in", op: o2.name, txt: o2.txt, l: precLeaf(k2, j+v+1), r: precLeaf(k2, i+j+v+2)}}
				}
				add(e)
			}
		}
	}
	// prefix operators bind tighter than every binary operator: -x op y is (-x) op y
	for i, o := range pIntOps {
		for _, p := range []popdef{{"-", "MINUS", 0}, {"~", "BITNOT", 0}, {"+", "PLUS", 0}} {
			add(&pnode{kind: "in", op: o.name, txt: o.txt, l: &pnode{kind: "pre", op: p.name, txt: p.txt, r: precLeaf("int", i)}, r: precLeaf("int", i+1)})
		}
	}
	for i, o := range append(append([]popdef{}, pEqOps...), pBoolOps...) {
		add(&pnode{kind: "in", op: o.name, txt: o.txt, l: &pnode{kind: "pre", op: "BANG", txt: "!", r: precLeaf("bool", i)}, r: precLeaf("bool", i+1)})
	}
	const per = 25
	n := (len(items) + per - 1) / per
	k %= n
	end := (k + 1) * per
	if end > len(items) {
		end = len(items)
	}
	return items[k*per : end]
}

func precPairSessions() int {
	return (len(genPrecPairsAll()) + 24) / 25
}

func genPrecPairsAll() []string {
	var all []string
	for k := 0; ; k++ {
		part := genPrecPairs(k)
		if k > 0 && len(all) > 0 && k*25 >= len(all)+25 {
			break
		}
		all = append(all, part...)
		if len(part) < 25 {
			break
		}
	}
	return all
}

package main

// `format` suite (C02, C03): parse (file mode), print in normal and compact mode, re-parse each
// printed text, print again.  Observation = the F.* fields of the parse suite plus, for m in {n, c}
// (normal, compact), when the first parse is error-free and needs no continuation and printing did
// not panic:
//   F.m.toks F.m.p F.m.e F.m.c F.m.t(.tnc)   re-parse of the printed text (file mode)
//   F.m.pp                                    the re-parsed tree printed again in the same print mode
//   F.r        1 iff `repl.EvalOne` with FormatOnly (the path of `grol -format [-compact]`, one long-lived
//              eval.State for the whole run, so every case is formatted "after other inputs") writes and
//              returns exactly the text the printer gives for the tree, in both modes
//   F.h        (every 40th case) 1 iff the printed texts are byte-identical when the same source is
//              formatted again after token.Init() (fresh interning table) — history independence
// plus the same for line mode (L.*) when the source has no newline-sensitive difference (always emitted).

import (
	"bytes"
	"context"
	"os"
	"strings"

	"grol.io/grol/eval"
	"grol.io/grol/repl"
	"grol.io/grol/token"
)

func init() {
	suites["format"] = suite{gen: formatGen, run: formatRun}
	suites["format03"] = suite{gen: formatGen, run: formatRun}
}

func observeFormat(o *obsWriter, pfx, src string, lineMode bool) {
	r := observeParse(o, pfx, src, lineMode, true)
	if r.panicked || r.errs > 0 || r.cont {
		return
	}
	var first [2]string
	for i, m := range printModes[:2] {
		txt := printReal(r.prog, m.compact, m.allParens)
		first[i] = txt
		if txt == "PANIC" {
			continue
		}
		k := pfx + m.key[1:] + "."
		rr := observeParse(o, k, unhx(txt), lineMode, false)
		if rr.panicked {
			continue
		}
		o.kv(k+"pp", printReal(rr.prog, m.compact, m.allParens))
	}
	if !lineMode && first[0] != "PANIC" && first[1] != "PANIC" {
		ok := true
		for i, m := range printModes[:2] {
			ok = ok && replFormat(src, m.compact) == first[i]
		}
		o.kv(pfx+"r", b2s(ok))
	}
	crossProcess(o, pfx, src, lineMode, first) // formatfam3.go: every 400th case also in a fresh process
	// history independence: every 40th case, the same source after a reset of the interning table
	// (all other cases run with the table as left by the cases before them)
	formatCount++
	if formatCount%40 != 0 {
		return
	}
	token.Init()
	r2 := parseReal(src, lineMode)
	h := !r2.panicked && r2.errs == 0 && !r2.cont
	if h {
		for i, m := range printModes[:2] {
			h = h && printReal(r2.prog, m.compact, m.allParens) == first[i]
		}
	}
	o.kv(pfx+"h", b2s(h))
}

var formatCount int

var replFormatState *eval.State

// the formatted text as the command line and the REPL produce it
func replFormat(src string, compact bool) (res string) {
	defer func() {
		if r := recover(); r != nil {
			res = "PANIC"
		}
	}()
	if replFormatState == nil {
		replFormatState = eval.NewState()
	}
	var out bytes.Buffer
	opts := repl.Options{All: true, FormatOnly: true, Compact: compact, PanicOk: true, NoColor: true}
	cont, _, errs, formatted := repl.EvalOne(context.Background(), replFormatState, src, &out, opts)
	if cont || len(errs) > 0 || out.String() != formatted {
		return "MISMATCH"
	}
	return hx(formatted)
}

func formatRun(input string) string {
	src := unhx(input)
	o := &obsWriter{}
	observeFormat(o, "F.", src, false)
	observeFormat(o, "L.", src, true)
	return o.b.String()
}

// ---- grammar-directed generator ----

var (
	gIdents  = []string{"a", "b", "c", "x", "foo", "i", "n_1"}
	gInts    = []string{"0", "1", "42", "0x1F", "0b101", "1_000", "007", "9223372036854775807", "99999999999999999999"}
	gFloats  = []string{"1.5", ".5", "1e3", "2.", "1_0.5", "3.14e-2"}
	gStrings = []string{`"s"`, `""`, `"a b"`, `"a\"b"`, `"a\\b"`, `"\n\t\r"`, "`raw \\ \"q\"`", "`multi\nline`", `"é"`, `"\x00\x7f"`, `"\xff\xfe"`, `"é "`, `"//no /*c*/"`, `"\U0001F600"`, `"'"`}
	gInfix   = []string{"+", "-", "*", "/", "%", "==", "!=", "<", "<=", ">", ">=", "<<", ">>", "||", "&&", "&", "|", "^", "=", ":="}
	gPrefix  = []string{"-", "!", "+", "~", "^", "++", "--"}
	gBuiltin = []string{"len", "first", "rest", "print", "println", "log", "error", "catch", "quote", "unquote", "del"}
)

func pick(r *rng, l []string) string { return l[r.intn(len(l))] }

func genAtom(r *rng) string {
	switch r.intn(10) {
	case 0, 1, 2, 3:
		return pick(r, gIdents)
	case 4, 5:
		return pick(r, gInts)
	case 6:
		return pick(r, gFloats)
	case 7:
		return pick(r, gStrings)
	case 8:
		return pick(r, []string{"true", "false"})
	default:
		return genString(r)
	}
}

// a double-quoted literal over arbitrary bytes (escaped so that the lexer reads them back)
func genString(r *rng) string {
	var b strings.Builder
	b.WriteByte('"')
	n := r.intn(5)
	for i := 0; i < n; i++ {
		switch r.intn(6) {
		case 0:
			b.WriteString([]string{`\n`, `\t`, `\r`, `\\`, `\"`, `\x07`, `\x0b`, `­`, `͸`, `\x80`, `\xc3\x28`}[r.intn(11)])
		case 1:
			b.WriteString([]string{"é", "日本", " ", "😀", " ", "'", "`"}[r.intn(7)])
		default:
			c := byte(32 + r.intn(95))
			if c == '"' || c == '\\' {
				c = 'q'
			}
			b.WriteByte(c)
		}
	}
	b.WriteByte('"')
	return b.String()
}

func genList(r *rng, d int, max int) string {
	n := r.intn(max + 1)
	parts := make([]string, n)
	for i := range parts {
		parts[i] = genExpr(r, d-1)
	}
	sep := ", "
	if r.intn(3) == 0 {
		sep = ","
	}
	return strings.Join(parts, sep)
}

func genParams(r *rng) string {
	n := r.intn(4)
	parts := make([]string, n)
	for i := range parts {
		parts[i] = pick(r, gIdents)
	}
	if n > 0 && r.intn(5) == 0 {
		parts[n-1] = ".."
	}
	return strings.Join(parts, ", ")
}

func genBlock(r *rng, d int) string {
	if r.intn(6) == 0 {
		return "{}"
	}
	if r.intn(2) == 0 {
		return "{ " + genStmts(r, d-1, 1+r.intn(2), "; ") + " }"
	}
	return "{\n" + genStmts(r, d-1, 1+r.intn(3), "\n") + "\n}"
}

func genExpr(r *rng, d int) string {
	if d <= 0 {
		return genAtom(r)
	}
	switch r.intn(24) {
	case 0, 1, 2:
		return genAtom(r)
	case 3, 4, 5, 6:
		return genExpr(r, d-1) + " " + pick(r, gInfix) + " " + genExpr(r, d-1)
	case 7:
		return genExpr(r, d-1) + pick(r, gInfix) + genExpr(r, d-1)
	case 8:
		return pick(r, gPrefix) + genExpr(r, d-1)
	case 9:
		return "(" + genExpr(r, d-1) + ")"
	case 10:
		return pick(r, gIdents) + pick(r, []string{"++", "--"})
	case 11:
		return genCallee(r, d) + "(" + genList(r, d, 3) + ")"
	case 12:
		switch r.intn(5) {
		case 0:
			return genCallee(r, d) + "[" + genExpr(r, d-1) + ":" + genExpr(r, d-1) + "]"
		case 1:
			return genCallee(r, d) + "[" + genExpr(r, d-1) + ":]"
		case 2:
			return genCallee(r, d) + "." + pick(r, gIdents)
		default:
			return genCallee(r, d) + "[" + genExpr(r, d-1) + "]"
		}
	case 13:
		return "[" + genList(r, d, 3) + "]"
	case 14:
		n := r.intn(4)
		parts := make([]string, n)
		for i := range parts {
			parts[i] = genExpr(r, d-1) + ":" + genExpr(r, d-1)
		}
		return "{" + strings.Join(parts, ", ") + "}"
	case 15:
		name := ""
		if r.intn(3) == 0 {
			name = " " + pick(r, gIdents)
		}
		return "func" + name + "(" + genParams(r) + ") " + genBlock(r, d)
	case 16:
		switch r.intn(4) {
		case 0:
			return pick(r, gIdents) + " => " + genExpr(r, d-1)
		case 1:
			return "(" + genParams(r) + ") => " + genExpr(r, d-1)
		case 2:
			return "(" + genParams(r) + ") => " + genBlock(r, d)
		default:
			return pick(r, gIdents) + "=>" + genBlock(r, d)
		}
	case 17:
		s := "if " + genExpr(r, d-1) + " " + genBlock(r, d)
		switch r.intn(4) {
		case 0:
			s += " else " + genBlock(r, d)
		case 1:
			s += " else if " + genExpr(r, d-1) + " " + genBlock(r, d) + " else " + genBlock(r, d)
		}
		return s
	case 18:
		switch r.intn(3) {
		case 0:
			return "for " + genExpr(r, d-1) + " " + genBlock(r, d)
		case 1:
			return "for " + pick(r, gIdents) + " = " + genExpr(r, d-1) + ":" + genExpr(r, d-1) + " " + genBlock(r, d)
		default:
			return "for " + pick(r, gIdents) + " := " + genAtom(r) + " " + genBlock(r, d)
		}
	case 19:
		return pick(r, gBuiltin) + "(" + genList(r, d, 2) + ")"
	case 20:
		return "macro(" + genParams(r) + ") " + genBlock(r, d)
	case 21:
		return pick(r, []string{"break", "continue", ".."})
	case 22:
		return "(" + genExpr(r, d-1) + " " + pick(r, gInfix) + " " + genExpr(r, d-1) + ")"
	default:
		return "(" + genExpr(r, d-1) + ")" + pick(r, []string{"", "(1)", "[0]", ".a", " + 1"})
	}
}

func genCallee(r *rng, d int) string {
	switch r.intn(6) {
	case 0:
		return "(" + genExpr(r, d-1) + ")"
	case 1:
		return pick(r, gIdents) + "." + pick(r, gIdents)
	case 2:
		return pick(r, gIdents) + "[" + genAtom(r) + "]"
	default:
		return pick(r, gIdents)
	}
}

func genStmt(r *rng, d int) string {
	switch r.intn(12) {
	case 0:
		return "return"
	case 1:
		return "return " + genExpr(r, d)
	case 2:
		return "// " + pick(r, []string{"c", "a comment", "x = 1", "/* */"})
	case 3:
		return "/* " + pick(r, []string{"c", "multi\nline", "* /", "// x"}) + " */"
	case 4:
		return pick(r, gIdents) + " = " + genExpr(r, d)
	default:
		return genExpr(r, d)
	}
}

func genStmts(r *rng, d, n int, sep string) string {
	var b strings.Builder
	for i := 0; i < n; i++ {
		s := genStmt(r, d)
		b.WriteString(s)
		if i < n-1 {
			if strings.HasPrefix(s, "//") {
				b.WriteString("\n")
			} else {
				b.WriteString(sep)
			}
		} else if strings.HasPrefix(s, "//") {
			b.WriteString("\n")
		}
	}
	return b.String()
}

func genProgram(r *rng, nstmts int) string {
	sep := pick(r, []string{"\n", "\n", "; ", ";", " ", "\n\n"})
	s := genStmts(r, 1+r.intn(3), nstmts, sep)
	if r.intn(2) == 0 {
		s += "\n"
	}
	return s
}

// every ordered pair of operators in parent / child position
func pairFamily(emit func(string)) {
	for _, p := range gInfix {
		for _, q := range gInfix {
			emit("a " + p + " (b " + q + " c)")
			emit("(a " + p + " b) " + q + " c")
			emit("a " + p + " b " + q + " c")
		}
		for _, u := range gPrefix {
			emit(u + "(a " + p + " b)")
			emit("(" + u + "a) " + p + " b")
			emit("a " + p + " (" + u + "b)")
			emit("a " + p + " " + u + "b")
			emit("a" + p + u + "b")
		}
		for _, pf := range []string{"++", "--"} {
			emit("(a" + pf + ") " + p + " b")
			emit("a " + p + " (b" + pf + ")")
			emit("a " + p + " b" + pf)
			emit("a" + pf + p + "b")
		}
		emit("(a " + p + " b)[1]")
		emit("(a " + p + " b)(1)")
		emit("(a " + p + " b).c")
		emit("a " + p + " b[1]")
		emit("a " + p + " b(1)")
		emit("a " + p + " b.c")
		emit("a[1] " + p + " b")
		emit("(x => x) " + p + " b")
		emit("a " + p + " (x => x)")
		emit("a " + p + " x => x")
		emit("x => x " + p + " b")
		emit("x => (y => y " + p + " b)")
		emit("a[b " + p + " c]")
		emit("a[b " + p + " c:d " + p + " e]")
		emit("{a " + p + " b: c " + p + " d}")
		emit("f(a " + p + " b, c)")
		emit("[a " + p + " b]")
		emit("if a " + p + " b {c}")
		emit("for a " + p + " b {c}")
		emit("return a " + p + " b")
		emit("func(){a " + p + " b}")
		emit("a " + p + " func(){b}")
		emit("a " + p + " func(){b}()")
		emit("a " + p + " if b {c} else {d}")
		emit("(if b {c} else {d}) " + p + " a")
		emit("a " + p + " [1,2]")
		emit("a " + p + " {1:2}")
		emit("a " + p + " len(b)")
		emit("a " + p + " \"s\"")
	}
	for _, u := range gPrefix {
		for _, v := range gPrefix {
			emit(u + "(" + v + "a)")
			emit(u + v + "a")
			emit(u + " " + v + "a")
		}
		emit(u + "a[1]")
		emit("(" + u + "a)[1]")
		emit(u + "a(1)")
		emit("(" + u + "a)(1)")
		emit(u + "a.b")
		emit("(" + u + "a).b")
		emit(u + "a++")
		emit(u + "(x => x)")
		emit(u + "x => x")
		emit("x => " + u + "x")
	}
	for _, s := range []string{
		"(a=>a)(1)", "(a=>a)[1]", "(a=>a).b", "((a,b)=>a)(1,2)", "(()=>1)()", "(func(){1})()", "func(){1}()", "a=>b=>c", "(a=>b)=>c", "a=>(b=>c)",
		"a.(..)", "(..).a", "(..).(..)", "a.(..++)", "a.(..).b", "a[..]", "f(..)", ".. + ..",
		"a[1:]", "a[1:2]", "a[b:]", "a[1:][2:]", "a[:2]", "a[1:2:3]", "a.b.c", "a.b[1].c(2)", "a[1][2]", "a(1)(2)", "a.b(1)", "(a.b)(1)", "a.(b)", "(a)(1)",
		"a; -b", "a; +b", "a; ^b", "a; !b", "a; ~b", "a; ++b", "a; --b", "a\n-b", "a // c\n+ b", "a /* c */ + b", "a + /* c */ b", "a +\nb", "a; (b)", "a (b)", "a [b]", "a; [b]", "a\n[b]", "a\n(b)",
		"a b", "a 1", "1 a", "a \"s\"", "\"s\" a", "a - -b", "a + +b", "a - --b", "a-- - b", "a + ++b", "(a++)+b", "a++ + b", "a+++b", "a++ +b", "a - (-b)", "-(-a)", "-(+a)", "!(!a)", "- -a", "--a", "-(--a)", "(--a)--",
		"return 1 x", "return; x", "return\nx", "return x; y", "return", "return;", "func(){return}", "func(){return;x}", "func(){return 1 x}",
		"x={\"a\":1}; x.a", "x={\"a\":1} x.a", "{\"a\":1}", "{}", "{} {}", "[] []", "[1] [2]", "a = [1]; [2]", "{1:2}; {3:4}", "x = {1:2}; [3]", "f(){}", "func f(){} f()", "func(){} ()",
		"if a {b} if c {d}", "if a {b} else {c} d", "if a {b} else if c {d} else {e}", "if a {b}\nelse {c}", "if (a) {b}", "for a {b} c", "for a {b} for c {d}", "for i=0:10 {i}", "for i:=0:10 {i}",
		"x = func(a,b){a+b}; x(1,2)", "x = func(a,b){a+b} x(1,2)", "func(a,..){a}", "(a,..)=>a", "..=>a", "func x(){1} x()", "a => {a} b", "a => a b", "(a => a) b", "a => {a}; b", "a=>{a}\nb",
		"macro(x){quote(unquote(x))}", "quote(a+b)", "unquote(a)", "len(a)", "len(a) b", "print(1) print(2)", "print(1);print(2)", "del(a.b)", "error(\"x\")", "catch(a)", "log(1,2)",
		"/* a */ b", "b /* a */", "// a\nb", "b // a\n", "b // a", "/* a */", "// a", "/* a */ /* b */", "// a\n// b", "a /* b */ c", "a\n/* b */\nc", "a // b\nc", "func(){ // c\n a}", "func(){a // c\n}", "func(){/* c */}", "func(){a /* c */ b}",
		"if a { // c\n b}", "if a {b} // c\n else {d}", "if a {b} /* c */ else {d}", "[1, // c\n 2]", "[1 /* c */, 2]", "f(/* c */)", "{/* c */}", "(/* c */ a)", "a = /* c */ b", "a = // c\n b", "/* c */ = a", "- /* c */ a",
		"/*/", "/* */ */", "/**/", "/***/", "/* a */ */ b", "\"abc", "x \"abc", "x `abc", "x /* abc", "x // abc", "a.1", "a.b.1", "1.a", "1..2", "a..b", "a[..]", "(..)", ".. + 1", "a ..",
		"true", "false", "true false", "!true", "break", "continue", "for true {break}", "for true {continue}", "break continue", "break; continue",
		"1 2", "1 -2", "1; -2", "1.5 .5", "1. 5", "1 .5", "1..5", "0x1F 0b11", "007", "08", "0x", "0b", "1_", "1e", "1e+", "99999999999999999999", "9223372036854775808", "-9223372036854775808",
		"a = b = c", "(a = b) = c", "a = (b = c)", "a := b := c", "a == b == c", "a == (b == c)", "a < b < c", "a - b - c", "a - (b - c)", "a / b / c", "a / (b / c)", "a * (b / c)", "a / (b * c)", "a * b / c", "a % (b * c)", "a - (b + c)", "a + (b - c)", "a || (b || c)", "a && (b || c)", "a | (b ^ c)", "a << (b << c)",
		"a:b", "a:b:c", "(a:b)", "x = a:b", "[a:b]", "f(a:b)", "a[(b:c)]", "a ? b", "a @ b", "a # b", "a $ b", "a \\ b", "a ' b",
		")=>1 rest", ")=>1", "]=>1 x", "}=>1", "*=>1", "a,b=>1", "a,b", ",=>1", "==>1", "=>1", "=>", "a=>", "a=>;", "a=>}", "(a,*)=>1", "(*,*)=>1", "(a,1)=>b", "(1)=>b", "(a+b)=>c", "(a,b)", "(a,)", "(,)", "()", "()=>", "(a,b)=>", "(a,b,)=>c",
	} {
		emit(s)
	}
}

// string literals of every escape form and raw byte class (escapeBodies of lex.go), in both quote styles:
// alone, adjacent, and inside programs
func stringLiteralFamily(emit func(string)) {
	var lits []string
	for _, b := range escapeBodies {
		lits = append(lits, "\""+b+"\"", "`"+b+"`")
	}
	for i, l := range lits {
		emit(l)
		emit("x = " + l + "; y = 1")
		emit("println(" + l + ")\nz")
		emit("f(" + l + ", " + l + ")")
		emit("[" + l + "]")
		emit("{" + l + ": " + l + "}")
		emit("func(){" + l + "}")
		emit("a " + l + " b")
		emit(l + ".a")
		emit("x[" + l + "]")
		emit("if " + l + " == " + l + " {1}")
		for j := i % 5; j < len(lits); j += 5 {
			emit(l + " " + lits[j])
			emit(l + lits[j])
			emit("x = " + l + " + " + lits[j])
		}
	}
}

func formatGen(tier string, r *rng, emit func(string)) {
	thorough := tier == "thorough"
	src := func(s string) { emit(hx(s)) }
	pairFamily(src)
	stringLiteralFamily(src)
	// statement adjacency: every ordered pair of statement kinds with every separator
	stmts := []string{"a", "1", "\"s\"", "-a", "(a)", "[a]", "{1:2}", "a+b", "a++", "a = 1", "a = [1]", "a = {1:2}", "a = b[1]", "f(a)", "a.b", "a[1]", "a[1:]", "x => x", "x => {x}", "(x,y) => x", "func(){a}", "func f(){a}",
		"if a {b}", "if a {b} else {c}", "for a {b}", "return", "return a", "break", "len(a)", "macro(){a}", "// c\n", "/* c */", "true", "..", "!a", "++a", "a--", "a = -b", "a = b => c", "a = func(){b}", "a = if b {c} else {d}"}
	seps := []string{"\n", "; ", " ", ""}
	for _, s1 := range stmts {
		for _, s2 := range stmts {
			for _, sep := range seps {
				src(s1 + sep + s2)
				src("func(){" + s1 + sep + s2 + "}")
			}
		}
	}
	n := 4000
	if thorough {
		n = 100000
	}
	for i := 0; i < n; i++ {
		src(genProgram(r, 1+r.intn(4)))
	}
	// the shipped programs and byte mutations of them that may still parse
	for _, f := range allFiles(repoDir()) {
		data, err := os.ReadFile(f)
		if err != nil {
			continue
		}
		s := string(data)
		src(s)
		m := 10
		if thorough {
			m = 200
		}
		for i := 0; i < m; i++ {
			src(mutate(r, s))
		}
	}
	n = 3000
	if thorough {
		n = 50000
	}
	for i := 0; i < n; i++ {
		src(mutate(r, genProgram(r, 1+r.intn(3))))
	}
	formatGapFamilies(tier, r, emit) // formatfam2.go
}

// escapes whose value is 0 or >= 0x80, raw invalid UTF-8, unknown and octal-looking escapes: also used by the
// random program generator
func init() {
	gStrings = append(gStrings, `"\u0000"`, `"a\u0000b"`, `"\x80"`, `"≡"`, "\"\xff\"", "`\xff\x80`", "\"\xc3\x28\"", `"\q\0"`)
}

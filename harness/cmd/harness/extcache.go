package main

import (
	"bytes"
	"fmt"
	"os"
	"path/filepath"
	"sort"
	"strings"

	"grol.io/grol/eval"
	"grol.io/grol/object"
)

// Suite extcache (serves C04): a function that calls a DontCache extension must never be memoized.
// For every registered extension flagged DontCache the harness builds a wrapper w = func(){ E(args) }
// with arguments synthesised from the registration's ArgTypes, calls it twice on a fresh state with the
// cache on, and reports how many cache entries exist afterwards (hook VerifCacheLen) and whether the
// second call was a hit (cache length after the first call).  Pure extensions are reported too (their
// wrappers are expected to be cached) so that the flag itself is an observation.
//
//	input: <name>;<dontcache 0|1>;<call text hex>
//	obs:   cl1=<entries after 1st call>;cl2=<after 2nd>;e=<0|1 error>

func init() { suites["extcache"] = suite{gen: extCacheGen, run: extCacheRun} }

func sampleArg(t object.Type, i int) string {
	switch t {
	case object.INTEGER:
		return "0"
	case object.FLOAT:
		return "0.5"
	case object.STRING:
		return `"a"`
	case object.BOOLEAN:
		return "true"
	case object.ARRAY:
		return "[1]"
	case object.MAP:
		return `{"a":1}`
	case object.FUNC:
		return "func(){1}"
	default:
		return "0"
	}
}

func extCacheGen(_ string, _ *rng, emit func(string)) {
	initExtensions()
	exts := object.ExtraFunctions()
	names := make([]string, 0, len(exts))
	for n := range exts {
		names = append(names, n)
	}
	sort.Strings(names)
	for _, n := range names {
		if n == "read" || n == "exec" || n == "run" { // read() blocks on the harness's stdin; exec/run start processes
			continue
		}
		e := exts[n]
		args := make([]string, e.MinArgs)
		for i := range args {
			t := object.ANY
			if i < len(e.ArgTypes) {
				t = e.ArgTypes[i]
			}
			args[i] = sampleArg(t, i)
		}
		call := n + "(" + strings.Join(args, ", ") + ")"
		emit(n + ";" + b2s(e.DontCache) + ";" + hx(call))
	}
}

var extCacheDir string

func extCacheRun(input string) string {
	initExtensions()
	parts := strings.SplitN(input, ";", 3)
	if len(parts) != 3 {
		return "BAD"
	}
	if extCacheDir == "" { // save/load/image.save touch the current directory: use a scratch one under work/
		wd, _ := os.Getwd()
		extCacheDir = filepath.Join(wd, "work", "extcache-scratch")
		_ = os.MkdirAll(extCacheDir, 0o755)
		_ = os.Chdir(extCacheDir)
		cleanups = append(cleanups, func() { _ = os.Chdir(wd); _ = os.RemoveAll(extCacheDir) })
	}
	call := unhx(parts[2])
	eval.VerifCacheOff = false
	s, out := newSession(false, evalOpts{})
	_ = out
	o := evalOpts{steps: 100000}
	buf := &bytes.Buffer{}
	s.Out = buf
	if strings.HasPrefix(parts[0], "image.") && parts[0] != "image.new" {
		evalInput(s, buf, `image.new("a", 2, 2)`, o)
	}
	evalInput(s, buf, "w = func(){ "+call+" }", o)
	r1 := evalInput(s, buf, "w()", o)
	cl1 := s.VerifCacheLen()
	evalInput(s, buf, "w()", o)
	cl2 := s.VerifCacheLen()
	isErr := strings.Contains(r1, ";e=1;") || strings.Contains(r1, ";p=go;")
	return fmt.Sprintf("cl1=%d;cl2=%d;e=%s", cl1, cl2, b2s(isErr))
}

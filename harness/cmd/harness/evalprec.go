package main

import (
	"fmt"
	"strconv"
	"strings"
)

// Precedence family of the eval suite: operator expressions rendered with MINIMAL parentheses from
// the DOCUMENTED precedence levels (ast/ast.go doc comments / README), together with the tree the
// documentation promises.  The tree (not the real parser's) is handed to the Lean model, so a changed
// precedence entry, associativity or prefix binding in the real parser shows up as a differing value.

type pnode struct {
	kind string // int, id, bool, in, pre
	op   string // token type name
	txt  string // operator text / literal
	l, r *pnode
}

type popdef struct {
	txt, name string
	prec      int
}

// documented levels: ASSIGN < OR < AND(:) < LAMBDA < EQUALS < LESSGREATER < SUM(+ - | ^) < PRODUCT(* % & << >>) < DIVIDE(/) < PREFIX
var pIntOps = []popdef{{"+", "PLUS", pSum}, {"-", "MINUS", pSum}, {"|", "BITOR", pSum}, {"^", "BITXOR", pSum},
	{"*", "ASTERISK", pProduct}, {"%", "PERCENT", pProduct}, {"&", "BITAND", pProduct}, {"<<", "LEFTSHIFT", pProduct},
	{">>", "RIGHTSHIFT", pProduct}, {"/", "SLASH", pDivide}}
var pCmpOps = []popdef{{"<", "LT", pLess}, {"<=", "LTEQ", pLess}, {">", "GT", pLess}, {">=", "GTEQ", pLess}}
var pEqOps = []popdef{{"==", "EQ", pEquals}, {"!=", "NOTEQ", pEquals}}
var pBoolOps = []popdef{{"&&", "AND", pAnd}, {"||", "OR", pOr}}

func (n *pnode) prec() int {
	switch n.kind {
	case "in":
		for _, t := range [][]popdef{pIntOps, pCmpOps, pEqOps, pBoolOps} {
			for _, o := range t {
				if o.name == n.op {
					return o.prec
				}
			}
		}
	case "pre":
		return pPrefix
	}
	return pAtom
}

func (n *pnode) render() string {
	switch n.kind {
	case "in":
		p := n.prec()
		ls, rs := n.l.render(), n.r.render()
		if n.l.prec() < p {
			ls = "(" + ls + ")"
		}
		if n.r.prec() <= p { // left associative: an equal-precedence right operand needs parentheses
			rs = "(" + rs + ")"
		}
		return ls + " " + n.txt + " " + rs
	case "pre":
		rs := n.r.render()
		if n.r.prec() < pPrefix || (n.r.kind == "pre" && (n.txt == "-" || n.txt == "+")) {
			rs = "(" + rs + ")"
		}
		return n.txt + rs
	default:
		return n.txt
	}
}

func (n *pnode) sexp() string {
	switch n.kind {
	case "in":
		return "(in " + n.op + " " + n.l.sexp() + " " + n.r.sexp() + ")"
	case "pre":
		return "(pre " + n.op + " " + n.r.sexp() + ")"
	case "int":
		return "(int " + n.txt + ")"
	case "bool":
		if n.txt == "true" {
			return "(bool 1)"
		}
		return "(bool 0)"
	default:
		return "(id " + hx(n.txt) + ")"
	}
}

func genPrecInt(r *rng, depth int) *pnode {
	if depth <= 0 || r.intn(4) == 0 {
		if r.intn(2) == 0 {
			return &pnode{kind: "id", txt: []string{"a", "b", "c", "d"}[r.intn(4)]}
		}
		return &pnode{kind: "int", txt: strconv.Itoa(1 + r.intn(9))}
	}
	if r.intn(6) == 0 {
		o := []popdef{{"-", "MINUS", 0}, {"~", "BITNOT", 0}, {"+", "PLUS", 0}}[r.intn(3)]
		return &pnode{kind: "pre", op: o.name, txt: o.txt, r: genPrecInt(r, depth-1)}
	}
	o := pIntOps[r.intn(len(pIntOps))]
	rhs := genPrecInt(r, depth-1)
	if o.name == "SLASH" || o.name == "PERCENT" { // keep divisors non-zero: (x | 1)
		rhs = &pnode{kind: "in", op: "BITOR", txt: "|", l: rhs, r: &pnode{kind: "int", txt: "1"}}
	}
	if o.name == "LEFTSHIFT" || o.name == "RIGHTSHIFT" {
		rhs = &pnode{kind: "int", txt: strconv.Itoa(r.intn(5))}
	}
	return &pnode{kind: "in", op: o.name, txt: o.txt, l: genPrecInt(r, depth-1), r: rhs}
}

func genPrecBool(r *rng, depth int) *pnode {
	if depth <= 0 || r.intn(5) == 0 {
		switch r.intn(3) {
		case 0:
			return &pnode{kind: "bool", txt: []string{"true", "false"}[r.intn(2)]}
		case 1:
			return &pnode{kind: "id", txt: []string{"t", "f"}[r.intn(2)]}
		}
		o := pCmpOps[r.intn(len(pCmpOps))]
		return &pnode{kind: "in", op: o.name, txt: o.txt, l: genPrecInt(r, 1), r: genPrecInt(r, 1)}
	}
	switch r.intn(5) {
	case 0:
		return &pnode{kind: "pre", op: "BANG", txt: "!", r: genPrecBool(r, depth-1)}
	case 1:
		o := pEqOps[r.intn(2)]
		if r.intn(2) == 0 {
			return &pnode{kind: "in", op: o.name, txt: o.txt, l: genPrecInt(r, depth-1), r: genPrecInt(r, depth-1)}
		}
		return &pnode{kind: "in", op: o.name, txt: o.txt, l: genPrecBool(r, depth-1), r: genPrecBool(r, depth-1)}
	case 2:
		o := pCmpOps[r.intn(len(pCmpOps))]
		return &pnode{kind: "in", op: o.name, txt: o.txt, l: genPrecInt(r, depth-1), r: genPrecInt(r, depth-1)}
	default:
		o := pBoolOps[r.intn(2)]
		return &pnode{kind: "in", op: o.name, txt: o.txt, l: genPrecBool(r, depth-1), r: genPrecBool(r, depth-1)}
	}
}

// one precedence session: bind the variables, then evaluate the expression (value observed, typed)
func genPrecCase(r *rng) string {
	var e *pnode
	if r.intn(2) == 0 {
		e = genPrecInt(r, 2+r.intn(3))
	} else {
		e = genPrecBool(r, 2+r.intn(3))
	}
	setup := fmt.Sprintf("a=%d;b=%d;c=%d;d=%d;t=true;f=false", 1+r.intn(9), -(1 + r.intn(9)), 10+r.intn(90), 2+r.intn(5))
	text := e.render()
	ast := "(stmts " + e.sexp() + ")"
	return hx(setup) + "|" + hx(text) + "^" + hx(ast)
}

var _ = strings.Join

// Suite `chunks` (C15, part 3): feeding the top-level statements of an error-free script to a
// persistent session in consecutive chunks gives the same output, final value and final globals as
// evaluating the script as one input.
//
//	input  <opts>;<hex script text>;<mask>
//	       mask bit i set = a cut after the (i+1)-th top-level statement; 0 = one chunk holding everything
//	obs    <hex chunk text>,... @@ <ast whole>|<ast chunk 1>|... @@ A:<whole>/<chunk 1>/<chunk 2>/... @@ B:.. @@ C:.. @@ D:..
//
// The script text is parsed by the real parser; a chunk's text is the NORMAL-MODE pretty-printed
// form of its statements (the printer output of an *ast.Statements holding exactly these statement
// nodes), as the property says.  (a) the whole script text and (b) the chunk texts one after the
// other are evaluated by `evalInput` (evalsuite.go) — the replica of repl.EvalOne/evalOne in file
// mode (parse, DefineMacros/ExpandMacros, Eval, recover + Reset) that keeps the result object — on
// one persistent eval.State each, in the four configurations of the eval suite (A = cache+registers,
// B = cache, C = registers, D = neither).  Per input: o=<output>;v=<value>;e=<error>;p=<panic>;g=<globals>.
package main

import (
	"fmt"
	"strconv"
	"strings"

	"grol.io/grol/ast"
	"grol.io/grol/eval"
	"grol.io/grol/lexer"
	"grol.io/grol/parser"
)

func init() {
	suites["chunks"] = suite{gen: chunksGen, run: chunksRun}
}

// topLevelStatements parses the script; nil when it has parse errors.
func topLevelStatements(text string) []ast.Node {
	p := parser.New(lexer.New(text))
	program := p.ParseProgram()
	if len(p.Errors()) > 0 || program == nil {
		return nil
	}
	return program.Statements
}

func printStatements(stmts []ast.Node) string {
	ps := ast.NewPrintState()
	(&ast.Statements{Statements: stmts}).PrettyPrint(ps)
	return ps.String()
}

// chunkTexts splits the statements after every position whose mask bit is set.
func chunkTexts(stmts []ast.Node, mask uint64) []string {
	var res []string
	start := 0
	for i := range stmts {
		last := i == len(stmts)-1
		if last || (i < 63 && mask&(1<<uint(i)) != 0) {
			res = append(res, printStatements(stmts[start:i+1]))
			start = i + 1
		}
	}
	return res
}

func chunksRun(input string) string {
	initExtensions()
	parts := strings.SplitN(input, ";", 3)
	if len(parts) != 3 {
		return "BAD"
	}
	o := parseEvalOpts(parts[0])
	text := unhx(parts[1])
	mask, err := strconv.ParseUint(parts[2], 10, 64)
	if err != nil {
		return "BAD"
	}
	stmts := topLevelStatements(text)
	if stmts == nil {
		return "P"
	}
	chunks := chunkTexts(stmts, mask)
	sb := &strings.Builder{}
	sb.WriteString(hxList(chunks))
	sb.WriteString(" @@ " + astOf(text))
	for _, c := range chunks {
		sb.WriteString("|" + astOf(c))
	}
	for _, cfg := range []struct {
		name            string
		cacheOff, noReg bool
	}{{"A", false, false}, {"B", false, true}, {"C", true, false}, {"D", true, true}} {
		eval.VerifCacheOff = cfg.cacheOff
		sb.WriteString(" @@ " + cfg.name + ":")
		s, out := newSession(cfg.noReg, o)
		sb.WriteString(evalInput(s, out, text, o))
		s, out = newSession(cfg.noReg, o)
		for _, c := range chunks {
			sb.WriteByte('/')
			sb.WriteString(evalInput(s, out, c, o))
		}
	}
	eval.VerifCacheOff = false
	return sb.String()
}

// hand-written scripts: statement kinds whose interplay with chunking matters (function definitions used
// later, closures over globals, := shadowing, loops, print output in every chunk, the recorded printer class)
var chunkScripts = []string{
	"a=1\nb=a+1\nprintln(a,b)\na=b*2\na+b",
	"func f(x){x*2}\ny=f(3)\nprintln(y)\nf(y)+1",
	"c=0\ninc=func(){c=c+1}\ninc()\ninc()\nprintln(c)\nc",
	"x:=1\nx:=x+1\nx=x*10\nprintln(x)\nx",
	"s=\"\"\nfor i=3 {s=s+\"x\"}\nprintln(s)\nlen(s)",
	"m={\"a\":1}\nm[\"b\"]=2\nprintln(m)\nm=m+{\"c\":3}\nlen(m)",
	"func fib(n){if n<2 {return n}\nfib(n-1)+fib(n-2)}\nprintln(fib(10))\nr=fib(12)\nr",
	"a=[1,2,3]\na[0]=5\nb=a+[4]\nprintln(a,b)\nfirst(b)",
	"print(\"a\")\nprint(\"b\")\nprintln(\"c\")\n1+1",
	"i=0\nfor i<3 {i++}\nprintln(i)\ni",
	// recorded C02 class: a statement that starts with a prefix operator is glued to the previous line when re-printed
	"a=5;-a",
	"a=5;b=2;+b;a",
	"x=1;y=3;-x;y",
	// macros defined before use, adjacent definitions in one chunk or split over chunks
	"m1 = macro(x){quote(unquote(x)*2)}\nm2 = macro(y){quote(unquote(y)+1)}\nr1 = m1(21)\nr2 = m2(41)\nprintln(\"r1\", r1, \"r2\", r2)",
	"a=1\nm1 = macro(x){quote(unquote(x)+unquote(x))}\nm2 = macro(x,y){quote(unquote(y)-unquote(x))}\nm3 = macro(){quote(7)}\nprintln(m1(a), m2(1,5), m3())\nm1(m2(2,9))",
	"d1 = macro(x){quote(println(unquote(x)))}\nd2 = macro(x){quote(unquote(x))}\nd1(\"one\")\nd1(d2(\"two\"))\nd2(3)",
}

func chunksGen(tier string, r *rng, emit func(string)) {
	nScripts, nRandomSplits := 150, 12
	if tier == "thorough" {
		nScripts, nRandomSplits = 900, 40
	}
	emitScript := func(text string) {
		stmts := topLevelStatements(text)
		n := len(stmts)
		if n == 0 {
			return
		}
		h := hx(text)
		if n <= 6 {
			for m := uint64(0); m < 1<<uint(n-1); m++ {
				emit(fmt.Sprintf("steps=200000;%s;%d", h, m))
			}
			return
		}
		emit(fmt.Sprintf("steps=200000;%s;0", h))
		emit(fmt.Sprintf("steps=200000;%s;%d", h, uint64(1)<<uint(n-1)-1)) // one statement per chunk
		for i := 0; i < nRandomSplits; i++ {
			emit(fmt.Sprintf("steps=200000;%s;%d", h, r.next()&(uint64(1)<<uint(n-1)-1)))
		}
	}
	for _, s := range chunkScripts {
		emitScript(s)
	}
	for i := 0; i < nScripts; i++ {
		stmts := genEvalProgram(r, 1+r.intn(7), false, false)
		emitScript(strings.Join(stmts, "\n"))
	}
	chunksGapFamilies(tier, r, emitScript) // chunksfam2.go
}

package main

// C03 "... in any process": every 400th error-free case of the format suites is also formatted by a FRESH
// PROCESS (subcommand `fmtchild`: this binary, file mode, normal and compact text) and the bytes are compared
// with the ones printed in this process, which by then has parsed thousands of other inputs.  Field `F.x`
// (1 = identical; the model's answer is always 1: it has no process state).

import (
	"fmt"
	"os"
	"os/exec"
	"strings"
)

func init() { subcommands["fmtchild"] = fmtChild }

func fmtChild(args []string) int {
	if len(args) != 1 {
		return 2
	}
	r := parseReal(unhx(args[0]), false)
	if r.panicked || r.errs > 0 || r.cont {
		fmt.Println("INVALID")
		return 0
	}
	fmt.Println(printReal(r.prog, false, false) + " " + printReal(r.prog, true, false))
	return 0
}

var crossCount int

// crossProcess: called for every error-free file-mode case with the two texts printed in this process.
func crossProcess(o *obsWriter, pfx, src string, lineMode bool, first [2]string) {
	if lineMode || first[0] == "PANIC" || first[1] == "PANIC" {
		return
	}
	crossCount++
	if crossCount%400 != 0 {
		return
	}
	exe, err := os.Executable()
	if err != nil {
		panic(err)
	}
	out, err := exec.Command(exe, "fmtchild", hx(src)).Output()
	same := err == nil && strings.TrimSpace(string(out)) == first[0]+" "+first[1]
	o.kv(pfx+"x", b2s(same))
}

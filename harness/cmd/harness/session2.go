package main

// session suite, additions of the gap analysis of C10 (appended to the tables of session.go; no other hook).
// Failing inputs the first table did not have: failures that pass THROUGH catch() (catch only turns error objects into
// values: the depth guard and the allocation guard unwind through it), errors raised in variadic calls, in loops over
// maps and strings, in else-if chains, map-literal keys, slices, `del` of an element of a non-map, the negative-count
// error of a counted loop (raised before the variable is written), deadlines inside list loops and inside recursion.
// Base histories exercising what the repairs of this review touched (closures of one text calling each other, `del` of
// an outer map's element from a function, containers stored inside large containers) around the failures.
func init() {
	sessFails = append(sessFails,
		sessFail{'e', `catch(boom())`, "d"},
		sessFail{'e', `catch((() => { boom() })()).err`, "d"},
		sessFail{'e', `catch([0] * (1 << 40))`, ""},
		sessFail{'e', `(() => { c9 = catch("ab" * (1 << 50)); c9.err })()`, ""},
		sessFail{'e', `(func(a, ..){ a + .. })(1, 2, 3)`, ""},
		sessFail{'e', `(func(..){ first(..) + "x" })(1)`, ""},
		sessFail{'e', `(() => { for e9 = m { e9.key + 1 } })()`, "p"}, // inside a function: at top level the loop variable would be a new global
		sessFail{'e', `(() => { for c9 = "abc" { c9 - 1 } })()`, ""},
		sessFail{'e', `if false { 1 } else if 1 + "a" { 2 } else { 3 }`, ""},
		sessFail{'e', `{1 / 0: 1}`, ""},
		sessFail{'e', `{[1] + 1: nosuchvar}`, ""},
		sessFail{'e', `arr[2:1]`, "p"},
		sessFail{'e', `"abc"[nosuchvar:2]`, ""},
		sessFail{'e', `del(arr[0])`, "p"},
		sessFail{'e', `for i = i+5:i+2 { 1 }`, "p"},
		sessFail{'e', `(() => { for u9 = 5:2 { 1 } })()`, ""},
		sessFail{'e', `for i = i:i+2 { catch(1 / 0); nosuchvar }`, "p"},
		sessFail{'e', `(() => { x9 = [0, 1, 2, 3, 4, 5, 6, 7, 8, 9]; x9[0] = x9; x9[10] })()`, ""},
		sessFail{'e', `ctr2 = mk(1) + 1`, "p"},
		sessFail{'t', `(() => { for true { for e9 = arr { } } })()`, "p"},
		sessFail{'t', `(func(n) { for true { self } })(1)`, ""},
		// (not `catch(for true { })` under a deadline: whether catch sees the deadline error or the input is cut before
		// catch starts depends on the instant of the cancellation, so neither the outcome nor the model's prediction is fixed)
	)
	sessFamilies = append(sessFamilies,
		// closures of one text calling each other (repo fix 0558004), counters, around failures
		[]string{`ad = func(n) { func(f) { if f == nil { n } else { n + f(nil) } } }; a1 = ad(1); a2 = ad(2)`, `a1(a2)`, `a2(a1) + ctr()`,
			`cons = func(h, t) { func() { if t == nil { [h] } else { [h] + t() } } }; l = cons(1, cons(2, nil)); l()`, `a1(a2) + len(l())`},
		// element deletion of an outer map from a function (908cebf), containers stored in large containers (95497ec, 11369d7)
		[]string{`dm = func(k) { del(m[k]) }; dm("a")`, `m`, `big = 0:12; big[0] = big; len(big[0])`, `q = big + [big]; p = big + 1; [len(q), len(p), q[12] == big]`,
			`bm = {1: 1, 2: 2, 3: 3, 4: 4, 5: 5}; bm[bm] = 1; len(bm)`, `dm("b"); m`},
	)
}

// Additions to the `cmp` suite (C12): the two users of the three-way comparison that the pair and
// triple cases do not reach.
//
//	O|<v1>|<v2>|...   (at least 9 values) sort.Sort on an object.BigArray of the values (BigArray.Less = Cmp < 0:
//	                  the only sorting in grol, used by info()).  obs: the sorted values joined by '|', or P (panic)
//	N|<v1>|...|<vk>   min(v1..vk) and max(v1..vk) evaluated from grol source, k >= 3.  obs: mn=<v>|P|-;mx=<v>|P|-
//	                  (`-`: a value without source form)
package main

import (
	"sort"
	"strings"

	"grol.io/grol/object"
)

func cmpExtRun(parts []string) string {
	switch parts[0] {
	case "O":
		els := make([]object.Object, len(parts)-1)
		for i, w := range parts[1:] {
			els[i] = buildWire(w)
		}
		arr, ok := object.NewArray(els).(object.BigArray)
		if !ok {
			return "NOTBIG"
		}
		panicked := func() (p bool) {
			defer func() {
				if r := recover(); r != nil {
					p = true
				}
			}()
			sort.Sort(arr)
			return false
		}()
		if panicked {
			return "P"
		}
		out := make([]string, 0, len(els))
		for _, e := range arr.Elements() {
			out = append(out, toWire(e))
		}
		return strings.Join(out, "|")
	case "N":
		srcs := make([]string, len(parts)-1)
		for i, w := range parts[1:] {
			s, ok := srcWire(w)
			if !ok {
				return "mn=-;mx=-"
			}
			srcs[i] = s
		}
		var sb strings.Builder
		for _, f := range []string{"min", "max"} {
			o, p := evalCatch(f + "(" + strings.Join(srcs, ",") + ")")
			if sb.Len() > 0 {
				sb.WriteByte(';')
			}
			sb.WriteString(f[:1] + f[2:] + "=")
			if p {
				sb.WriteString("P")
			} else {
				sb.WriteString(toWire(o))
			}
		}
		return sb.String()
	}
	return "?"
}

func cmpExtGen(tier string, r *rng, u, pool []string, emit func(string)) {
	thorough := tier == "thorough"
	var data []string
	for _, v := range append(append([]string{}, u...), pool...) {
		if isPlainData(v) {
			data = append(data, v)
		}
	}
	nums := cmpNumbers()
	pick := func(from []string, n int) []string {
		res := make([]string, n)
		for i := range res {
			res[i] = from[r.intn(len(from))]
		}
		return res
	}
	// sorting: the numbers alone (ints next to floats, NaN, -0), everything, and runs with many equivalent values
	emit("O|" + strings.Join(nums, "|"))
	rev := append([]string{}, nums...)
	for i, j := 0, len(rev)-1; i < j; i, j = i+1, j-1 {
		rev[i], rev[j] = rev[j], rev[i]
	}
	emit("O|" + strings.Join(rev, "|"))
	emit("O|" + strings.Join(data, "|"))
	nSort := 400
	if thorough {
		nSort = 6000
	}
	for i := 0; i < nSort; i++ {
		from := data
		switch r.intn(3) {
		case 0:
			from = nums
		case 1: // a small sub-universe: many equal and equivalent (1 / 1.0) values
			from = pick(data, 2+r.intn(4))
		}
		emit("O|" + strings.Join(pick(from, 9+r.intn(40)), "|"))
	}
	// min / max of 3..6 arguments from source
	nMM := 1500
	if thorough {
		nMM = 20000
	}
	for i := 0; i < nMM; i++ {
		from := data
		if r.intn(2) == 0 {
			from = nums
		}
		emit("N|" + strings.Join(pick(from, 3+r.intn(4)), "|"))
	}
}

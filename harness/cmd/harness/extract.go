// Fact extractor: `harness -gendir <dir> -repo <path> extract` regenerates
// lean/Grol/Generated/*.lean from the Go sources of the repo (go/parser + go/ast only).
//
// Each generator is a separate function registered in `extractors` from an init() of its
// own file (extract_<what>.go) and writes only its own Lean file.
package main

import (
	"flag"
	"fmt"
	"go/ast"
	"go/build/constraint"
	"go/parser"
	"go/printer"
	"go/token"
	"os"
	"path/filepath"
	"sort"
	"strings"
)

var (
	gendirFlag = flag.String("gendir", "", "extract: directory of the generated Lean files")
	repoFlag   = flag.String("repo", "", "extract: path of the grol repository")
)

// extractors are run in order by the `extract` subcommand; each writes its own file(s) in gendir.
var extractors []func(repo, gendir string) error

func init() { subcommands["extract"] = runExtract }

func runExtract(_ []string) int {
	if *gendirFlag == "" || *repoFlag == "" {
		fmt.Fprintln(os.Stderr, "usage: harness -gendir <dir> -repo <path> extract")
		return 2
	}
	if err := os.MkdirAll(*gendirFlag, 0o755); err != nil {
		fmt.Fprintln(os.Stderr, err)
		return 1
	}
	for _, e := range extractors {
		if err := e(*repoFlag, *gendirFlag); err != nil {
			fmt.Fprintln(os.Stderr, "extract:", err)
			return 1
		}
	}
	return 0
}

// ---- helpers shared by the generators ----

// goFile is one parsed production source file of the repo.
type goFile struct {
	rel  string // path relative to the repo root, with forward slashes
	fset *token.FileSet
	file *ast.File
}

// onlyWithVerifTag reports whether the file's build constraint can only be satisfied with the
// `verif` tag on (these files are hooks of this framework, not production code).
func onlyWithVerifTag(f *ast.File) bool {
	for _, cg := range f.Comments {
		if cg.Pos() > f.Package {
			break
		}
		for _, c := range cg.List {
			if !constraint.IsGoBuild(c.Text) {
				continue
			}
			x, err := constraint.Parse(c.Text)
			if err != nil {
				continue
			}
			ev := func(others, verif bool) bool {
				return x.Eval(func(tag string) bool {
					if tag == "verif" {
						return verif
					}
					return others
				})
			}
			return !ev(true, false) && !ev(false, false) && (ev(true, true) || ev(false, true))
		}
	}
	return false
}

// repoGoFiles parses every non-test .go file of the repo that is part of a production build
// (files that need the `verif` tag are skipped), sorted by path.
func repoGoFiles(repo string) ([]goFile, error) {
	var paths []string
	err := filepath.WalkDir(repo, func(p string, d os.DirEntry, err error) error {
		if err != nil {
			return err
		}
		if d.IsDir() {
			n := d.Name()
			if p != repo && (strings.HasPrefix(n, ".") || n == "vendor" || n == "testdata") {
				return filepath.SkipDir
			}
			return nil
		}
		if strings.HasSuffix(p, ".go") && !strings.HasSuffix(p, "_test.go") {
			paths = append(paths, p)
		}
		return nil
	})
	if err != nil {
		return nil, err
	}
	sort.Strings(paths)
	var res []goFile
	for _, p := range paths {
		fset := token.NewFileSet()
		f, err := parser.ParseFile(fset, p, nil, parser.ParseComments)
		if err != nil {
			return nil, err
		}
		if onlyWithVerifTag(f) {
			continue
		}
		rel, _ := filepath.Rel(repo, p)
		res = append(res, goFile{rel: filepath.ToSlash(rel), fset: fset, file: f})
	}
	return res, nil
}

// src renders a node as (single line) Go source.
func (g goFile) src(n ast.Node) string {
	var sb strings.Builder
	_ = printer.Fprint(&sb, g.fset, n)
	return strings.Join(strings.Fields(sb.String()), " ")
}

// importName returns the local name → import path map of the file.
func (g goFile) imports() map[string]string {
	m := map[string]string{}
	for _, im := range g.file.Imports {
		path := strings.Trim(im.Path.Value, "\"`")
		name := path[strings.LastIndex(path, "/")+1:]
		if im.Name != nil {
			name = im.Name.Name
		}
		m[name] = path
	}
	return m
}

// walkConds visits every node below n in source order together with the `if` conditions that
// syntactically enclose it (outermost first; an else branch contributes "!(cond)").
func (g goFile) walkConds(n ast.Node, conds []string, visit func(n ast.Node, conds []string)) {
	if n == nil {
		return
	}
	visit(n, conds)
	if ifs, ok := n.(*ast.IfStmt); ok {
		if ifs.Init != nil {
			g.walkConds(ifs.Init, conds, visit)
		}
		g.walkConds(ifs.Cond, conds, visit)
		c := g.src(ifs.Cond)
		g.walkConds(ifs.Body, append(conds[:len(conds):len(conds)], c), visit)
		if ifs.Else != nil {
			g.walkConds(ifs.Else, append(conds[:len(conds):len(conds)], "!("+c+")"), visit)
		}
		return
	}
	ast.Inspect(n, func(c ast.Node) bool {
		if c == n {
			return true
		}
		if c != nil {
			g.walkConds(c, conds, visit)
		}
		return false
	})
}

// leanStr renders a Go string as a Lean string literal.
func leanStr(s string) string {
	var sb strings.Builder
	sb.WriteByte('"')
	for _, r := range s {
		switch {
		case r == '"':
			sb.WriteString("\\\"")
		case r == '\\':
			sb.WriteString("\\\\")
		case r == '\n':
			sb.WriteString("\\n")
		case r == '\t':
			sb.WriteString("\\t")
		case r < 0x20 || r == 0x7f:
			fmt.Fprintf(&sb, "\\x%02x", r)
		default:
			sb.WriteRune(r)
		}
	}
	sb.WriteByte('"')
	return sb.String()
}

func leanStrList(l []string) string {
	q := make([]string, len(l))
	for i, s := range l {
		q[i] = leanStr(s)
	}
	return "[" + strings.Join(q, ", ") + "]"
}

// writeIfChanged keeps the file's mtime (and lake's cache) when nothing changed.
func writeIfChanged(path, content string) error {
	old, err := os.ReadFile(path)
	if err == nil && string(old) == content {
		return nil
	}
	return os.WriteFile(path, []byte(content), 0o644)
}
